#!/usr/bin/env python3
"""Automatic mutation campaign (a measurement OF the checks, not a check): one-token mutants of rtamt's semantic code that still pass the
pinned test suite are run against the quick tier of the checks mapped to the mutated file; the result table shows which ones
the machinery reports.  Everything happens in scratch copies under /tmp (VERIF_REPO / VERIF_OUT), /repo and /verif/evidence are not touched.

  campaign.py sites                      list the mutation sites (deterministic)
  campaign.py run <stride> <offset> [workers]   take every stride-th site starting at offset
  campaign.py table                      rewrite CAMPAIGN.md from campaign.jsonl
"""
import ast
import json
import os
import re
import shutil
import subprocess
import sys
import time
from concurrent.futures import ThreadPoolExecutor

HERE = os.path.dirname(os.path.abspath(__file__))
VERIF = os.path.dirname(HERE)
LOG = os.path.join(HERE, 'campaign.jsonl')
SCRATCH = '/tmp/vf_campaign'

# directory prefix (relative to rtamt/) -> checks whose quick tier is run against a surviving mutant
MAP = [
    ('semantics/stl/discrete_time/offline', ['C01', 'C16', 'C07']),
    ('semantics/stl/discrete_time/online', ['C02', 'C03', 'C10']),
    ('semantics/arithmetic/discrete_time/online', ['C02', 'C03']),
    ('semantics/stl/dense_time/offline', ['C04', 'C19', 'C16']),
    ('semantics/stl/dense_time/online', ['C05', 'C10', 'C18']),
    ('semantics/arithmetic/dense_time/online', ['C05', 'C06']),
    ('semantics/iastl', ['C06']),
    ('semantics/interval', ['C08', 'C03']),
    ('semantics/', ['C10', 'C13', 'C17', 'C12', 'C11']),          # abstract interpreters, unit transformers
    ('pastifier', ['C03', 'C08', 'C05']),
    ('syntax/ast/parser', ['C14', 'C15', 'C08', 'C09']),
    ('syntax/ast/visitor', ['C01', 'C02']),
    ('syntax/node', ['C09', 'C08', 'C02', 'C15']),
    ('explanation', ['C20']),
    ('spec', ['C10', 'C13', 'C17', 'C12']),
]
SKIP_DIRS = ('antlr', 'cpplib', 'lib', 'exception', 'semantics/stl/discrete_time/online/cpp', 'semantics/enumerations')


def checks_for(rel):
    for pre, cs in MAP:
        if rel.startswith(pre):
            return cs
    return ['C01', 'C02']


def source_files(repo):
    out = []
    base = os.path.join(repo, 'rtamt')
    for d, _, fs in os.walk(base):
        rel = os.path.relpath(d, base)
        if any(rel == s or rel.startswith(s + '/') for s in SKIP_DIRS):
            continue
        for f in sorted(fs):
            if f.endswith('.py') and f != '__init__.py':
                out.append(os.path.join(rel, f) if rel != '.' else f)
    return sorted(out)


CMP = {ast.Lt: '<=', ast.LtE: '<', ast.Gt: '>=', ast.GtE: '>', ast.Eq: '!=', ast.NotEq: '=='}
CMP_TXT = {ast.Lt: '<', ast.LtE: '<=', ast.Gt: '>', ast.GtE: '>=', ast.Eq: '==', ast.NotEq: '!='}


def sites_of(path, text):
    """list of (kind, lineno, col, end_lineno, end_col, replacement) - single-span textual edits"""
    try:
        tree = ast.parse(text)
    except SyntaxError:
        return []
    lines = text.split('\n')
    out = []

    def seg(n):
        return ast.get_source_segment(text, n)

    for fn in ast.walk(tree):
        if not isinstance(fn, (ast.FunctionDef,)):
            continue
        if fn.name in ('__str__', '__repr__', 'name', 'spec_print', 'get_spec_print'):
            continue
        for n in ast.walk(fn):
            if isinstance(n, ast.Compare) and len(n.ops) == 1 and type(n.ops[0]) in CMP:
                l, r = n.left, n.comparators[0]
                # operator text lies between the two operands
                if l.end_lineno == r.lineno:
                    line = lines[l.end_lineno - 1]
                    mid = line[l.end_col_offset:r.col_offset]
                    op = CMP_TXT[type(n.ops[0])]
                    if mid.count(op) == 1 and mid.strip() == op:
                        i = l.end_col_offset + mid.index(op)
                        out.append(('cmp', l.end_lineno, i, l.end_lineno, i + len(op), CMP[type(n.ops[0])]))
            elif isinstance(n, ast.BinOp) and isinstance(n.op, (ast.Add, ast.Sub)):
                l, r = n.left, n.right
                if any(isinstance(x, (ast.JoinedStr,)) or (isinstance(x, ast.Constant) and isinstance(x.value, str)) for x in (l, r)):
                    continue
                if l.end_lineno == r.lineno:
                    line = lines[l.end_lineno - 1]
                    mid = line[l.end_col_offset:r.col_offset]
                    op = '+' if isinstance(n.op, ast.Add) else '-'
                    if mid.strip() == op:
                        i = l.end_col_offset + mid.index(op)
                        out.append(('arith', l.end_lineno, i, l.end_lineno, i + 1, '-' if op == '+' else '+'))
            elif isinstance(n, ast.Call) and isinstance(n.func, ast.Name) and n.func.id in ('min', 'max'):
                f = n.func
                out.append(('minmax', f.lineno, f.col_offset, f.end_lineno, f.end_col_offset, 'max' if f.id == 'min' else 'min'))
            elif isinstance(n, ast.Constant) and type(n.value) is int and n.value in (0, 1):
                out.append(('const', n.lineno, n.col_offset, n.end_lineno, n.end_col_offset, '1' if n.value == 0 else '0'))
            elif isinstance(n, ast.Attribute) and n.attr in ('begin', 'end') and isinstance(n.ctx, ast.Load):
                out.append(('beginend', n.end_lineno, n.end_col_offset - len(n.attr), n.end_lineno, n.end_col_offset,
                            'end' if n.attr == 'begin' else 'begin'))
            elif isinstance(n, ast.UnaryOp) and isinstance(n.op, ast.USub) and isinstance(n.operand, ast.Call):
                out.append(('neg', n.lineno, n.col_offset, n.lineno, n.col_offset + 1, ''))
            elif isinstance(n, ast.UnaryOp) and isinstance(n.op, ast.Not):
                o = n.operand
                if n.lineno == o.lineno:
                    out.append(('not', n.lineno, n.col_offset, o.lineno, o.col_offset, ''))
            elif isinstance(n, ast.BoolOp) and len(n.values) == 2 and n.values[0].end_lineno == n.values[1].lineno:
                a, b = n.values
                line = lines[a.end_lineno - 1]
                mid = line[a.end_col_offset:b.col_offset]
                op = 'and' if isinstance(n.op, ast.And) else 'or'
                if mid.strip() == op:
                    i = a.end_col_offset + mid.index(op)
                    out.append(('bool', a.end_lineno, i, a.end_lineno, i + len(op), 'or' if op == 'and' else 'and'))
        for st in ast.walk(fn):
            if isinstance(st, (ast.Assign, ast.AugAssign)) or (isinstance(st, ast.Expr) and isinstance(st.value, ast.Call)):
                if st.lineno == st.end_lineno and not seg(st).startswith(('super', 'self.exist', 'logging', 'print', 'raise')):
                    out.append(('delete', st.lineno, st.col_offset, st.end_lineno, st.end_col_offset, 'pass'))
    # de-duplicate (nested functions are walked twice)
    seen, res = set(), []
    for s in out:
        if s not in seen:
            seen.add(s)
            res.append(s)
    return sorted(res, key=lambda s: (s[1], s[2], s[0]))


KINDS = tuple(k for k in os.environ.get('CAMPAIGN_KINDS', 'cmp,arith,minmax,const,beginend,neg,not,bool').split(',') if k)


def all_sites(repo='/repo'):
    """deterministic list of sites; statement deletions are generated but not selected by default (most of them only remove a
    registration in a look-up table and are equivalent)"""
    out = []
    for rel in source_files(repo):
        text = open(os.path.join(repo, 'rtamt', rel)).read()
        for s in sites_of(rel, text):
            if s[0] in KINDS:
                out.append((rel,) + s)
    return out


PREFIXES = tuple(k for k in os.environ.get('CAMPAIGN_PREFIX', '').split(',') if k)


def apply_site(text, site):
    kind, l1, c1, l2, c2, rep = site
    lines = text.split('\n')
    assert l1 == l2
    line = lines[l1 - 1]
    lines[l1 - 1] = line[:c1] + rep + line[c2:]
    return '\n'.join(lines)


def sh(cmd, env=None, timeout=None):
    return subprocess.run(cmd, shell=True, capture_output=True, text=True, env=env, timeout=timeout)


def make_copy(d):
    shutil.rmtree(d, ignore_errors=True)
    os.makedirs(d)
    assert sh('git -C /repo archive HEAD | tar -x -C %s' % d).returncode == 0


def run_one(worker, idx, site, nproc):
    rel = site[0]
    d = os.path.join(SCRATCH, 'w%d' % worker)
    if not os.path.isdir(os.path.join(d, 'rtamt')):
        make_copy(d)
    p = os.path.join(d, 'rtamt', rel)
    orig = open(p).read()
    rec = {'index': idx, 'file': rel, 'kind': site[1], 'line': site[2], 'col': site[3], 'replacement': site[6],
           'source_line': orig.split('\n')[site[2] - 1].strip()[:160]}
    try:
        mutated = apply_site(orig, site[1:])
        try:
            compile(mutated, p, 'exec')
        except SyntaxError:
            rec['status'] = 'does not compile'
            return rec
        open(p, 'w').write(mutated)
        env = dict(os.environ, PYTHONPATH=d, PYTHONDONTWRITEBYTECODE='1')
        r = sh('cd %s && /venv/bin/python -B -m pytest -q -x -p no:cacheprovider --timeout=300 --deselect tests/cpp --ignore=tests/cpp tests 2>&1 | tail -1' % d,
               env=env, timeout=1200)
        rec['suite'] = r.stdout.strip()[-70:]
        if ' passed' not in r.stdout or 'failed' in r.stdout or 'error' in r.stdout:
            rec['status'] = 'killed by the pinned suite'
            return rec
        rec['status'] = 'survives the suite'
        out = os.path.join(SCRATCH, 'out%d' % worker)
        det = {}
        for c in checks_for(rel):
            env = dict(os.environ, VERIF_REPO=d, VERIF_OUT=out, VERIF_NPROC=str(nproc), VERIF_STOP_AFTER='1')
            t = time.time()
            try:
                r = sh('cd %s && ./check %s --tier quick' % (VERIF, c), env=env, timeout=3600)
                first = re.search(r'^  # (.*)$', r.stdout, re.M)
                det[c] = {'exit': r.returncode, 'first': first.group(1)[:160] if first else
                          (re.search(r'^BROKEN.*$', r.stdout, re.M).group(0)[:160] if r.returncode == 2 and re.search(r'^BROKEN.*$', r.stdout, re.M) else ''),
                          's': round(time.time() - t)}
            except subprocess.TimeoutExpired:
                det[c] = {'exit': 'timeout', 'first': '', 's': 3600}
            if det[c]['exit'] == 1:
                break
        rec['checks'] = det
        rec['reported'] = any(v['exit'] == 1 for v in det.values())
        return rec
    finally:
        open(p, 'w').write(orig)


def run(stride, offset, workers=4, nproc=2):
    sites = all_sites()
    done = set()
    if os.path.exists(LOG):
        for l in open(LOG):
            done.add(json.loads(l)['index'])
    todo = [(i, s) for i, s in enumerate(sites) if i % stride == offset and i not in done and (not PREFIXES or s[0].startswith(PREFIXES))]
    print('%d sites, %d selected, %d workers' % (len(sites), len(todo), workers))
    os.makedirs(SCRATCH, exist_ok=True)
    import queue
    free = queue.Queue()
    for w in range(workers):
        free.put(w)

    def job(item):
        i, s = item
        w = free.get()
        try:
            rec = run_one(w, i, s, nproc)
        except Exception as e:
            rec = {'index': i, 'file': s[0], 'kind': s[1], 'line': s[2], 'status': 'campaign error: %r' % (e,)}
        finally:
            free.put(w)
        with open(LOG, 'a') as fh:
            fh.write(json.dumps(rec, sort_keys=True) + '\n')
        print(rec['index'], rec['file'], rec['kind'], rec.get('line'), rec['status'], rec.get('reported'),
              {c: v['exit'] for c, v in rec.get('checks', {}).items()}, flush=True)
    with ThreadPoolExecutor(workers) as ex:
        list(ex.map(job, todo))
    shutil.rmtree(SCRATCH, ignore_errors=True)


def table():
    recs = [json.loads(l) for l in open(LOG)]
    recs.sort(key=lambda r: r['index'])
    surv = [r for r in recs if r['status'] == 'survives the suite']
    rep = [r for r in surv if r.get('reported')]
    with open(os.path.join(HERE, 'CAMPAIGN.md'), 'w') as fh:
        fh.write('# Automatic mutation campaign\n\n')
        fh.write('%d mutants generated, %d killed by the pinned suite, %d do not compile, **%d survive the suite**; of those **%d are reported** '
                 'by the quick tier of a mapped check and %d are not (see the triage column).\n\n'
                 % (len(recs), sum(r['status'] == 'killed by the pinned suite' for r in recs), sum(r['status'] == 'does not compile' for r in recs),
                    len(surv), len(rep), len(surv) - len(rep)))
        fh.write('| # | file:line | mutation | source line | reported by | first message / triage |\n|---|---|---|---|---|---|\n')
        tri = {}
        tp = os.path.join(HERE, 'campaign_triage.json')
        if os.path.exists(tp):
            tri = json.load(open(tp))
        for r in surv:
            by = [c for c, v in r.get('checks', {}).items() if v['exit'] == 1]
            msg = next((v['first'] for c, v in r.get('checks', {}).items() if v['exit'] == 1), '')
            if not by:
                msg = 'NOT REPORTED (%s) %s' % (', '.join('%s:%s' % (c, v['exit']) for c, v in r.get('checks', {}).items()), tri.get(str(r['index']), ''))
            fh.write('| %d | %s:%d | %s -> `%s` | `%s` | %s | %s |\n' % (r['index'], r['file'], r['line'], r['kind'], r.get('replacement', ''),
                                                                      r.get('source_line', '').replace('|', '\\|'), ', '.join(by) or '-', msg.replace('|', '\\|')))
    print('survive', len(surv), 'reported', len(rep))


if __name__ == '__main__':
    if sys.argv[1] == 'sites':
        ss = all_sites()
        import collections
        print(len(ss), collections.Counter(s[1] for s in ss))
    elif sys.argv[1] == 'run':
        run(int(sys.argv[2]), int(sys.argv[3]), int(sys.argv[4]) if len(sys.argv) > 4 else 4, int(sys.argv[5]) if len(sys.argv) > 5 else 2)
    else:
        table()
