#!/usr/bin/env python3
"""build: keep the mutants that still pass the pinned suite (scratch worktree under /tmp, removed afterwards).
check: apply each kept patch to /repo, run the listed checks (quick tier), restore the tree, write RESULTS.md."""
import os, re, subprocess, sys, json
HERE = os.path.dirname(os.path.abspath(__file__))
sys.path.insert(0, HERE)
from mutants import MUTANTS
WT = '/tmp/wt_selftest'


def sh(cmd, **kw):
    return subprocess.run(cmd, shell=True, capture_output=True, text=True, **kw)


def build():
    sh('git -C /repo worktree remove --force %s' % WT)
    assert sh('git -C /repo worktree add -q %s HEAD' % WT).returncode == 0
    kept = []
    try:
        for name, path, old, new, checks in MUTANTS:
            p = os.path.join(WT, path)
            s = open(p).read()
            if s.count(old) != 1:
                print('%-40s SKIP (anchor occurs %d times)' % (name, s.count(old)))
                continue
            s2 = s.replace(old, new)
            if name == 'once_timed_shared_buffer':
                s2 = s2.replace("class OnceTimedOperation(AbstractOnlineOperation):\n", "class OnceTimedOperation(AbstractOnlineOperation):\n    _pool = {}\n\n")
            open(p, 'w').write(s2)
            r = sh('cd %s && PYTHONPATH=%s PYTHONDONTWRITEBYTECODE=1 /venv/bin/python -m pytest -q -p no:cacheprovider --timeout=900 --continue-on-collection-errors tests 2>&1 | tail -1' % (WT, WT))
            ok = '509 passed' in r.stdout
            diff = sh('git -C %s diff' % WT).stdout
            sh('git -C %s checkout -- .' % WT)
            print('%-40s suite: %s' % (name, 'passes -> kept' if ok else 'FAILS -> dropped (%s)' % r.stdout.strip()[-60:]))
            if ok:
                open(os.path.join(HERE, 'patches', name + '.diff'), 'w').write(diff)
                kept.append(name)
    finally:
        sh('git -C /repo worktree remove --force %s' % WT)
    print('kept', len(kept), 'of', len(MUTANTS))


def check(only=None):
    assert sh('git -C /repo status --porcelain').stdout.strip() == '', '/repo is not clean'
    rows = []
    for name, path, old, new, checks in MUTANTS:
        patch = os.path.join(HERE, 'patches', name + '.diff')
        if not os.path.exists(patch) or (only and name not in only):
            continue
        assert sh('git -C /repo apply %s' % patch).returncode == 0, name
        try:
            for c in checks:
                r = sh('cd /verif && ./check %s --tier quick' % c)
                viol = len(re.findall(r'^VIOLATION', r.stdout, re.M))
                first = re.search(r'^  # (.*)$', r.stdout, re.M)
                rows.append((name, c, r.returncode, viol, first.group(1)[:110] if first else ''))
                print('%-40s %s rc=%d violations_reported=%d %s' % rows[-1])
        finally:
            sh('git -C /repo checkout -- .')
    with open(os.path.join(HERE, 'RESULTS.md'), 'a') as fh:
        for row in rows:
            fh.write('| %s | %s | %d | %d | %s |\n' % row)


if __name__ == '__main__':
    if sys.argv[1] == 'build':
        build()
    else:
        check(sys.argv[2:] or None)
