#!/usr/bin/env python3
"""Development aid: run selected shards of one check in this process and print what they report (no evidence, no replay files).
  /venv/bin/python -B tools_shard.py C02 quick coresident          shards whose repr contains the word
  VERIF_REPO=/tmp/scratch/sd_X /venv/bin/python -B tools_shard.py C10 quick faulty
Never used by a registered command."""
import sys
import time
import os
import tempfile

sys.pycache_prefix = tempfile.mkdtemp(prefix='vf_pyc_')
sys.path.insert(0, os.path.dirname(os.path.abspath(__file__)))
from vf import runner  # noqa: E402


def main():
    cid, tier, word = sys.argv[1], sys.argv[2], sys.argv[3]
    limit = int(sys.argv[4]) if len(sys.argv) > 4 else 10 ** 9
    check = runner.get_check(cid)
    runner._KNOWN.update(runner.load_known())
    shards = [s for s in check.shards(tier) if word in repr(s)][:limit]
    print('%d shards' % len(shards))
    tot = runner.Res(cid)
    t0 = time.time()
    for s in shards:
        res = runner.Res(cid)
        check.run_shard(s, tier, res)
        for v in res.violations[:3]:
            print('VIOL', v.get('what'), '\n     ', {k: v[k] for k in v if k != 'what'})
        for k in ('evaluations', 'nontrivial', 'states', 'transitions', 'formulas', 'nviol'):
            setattr(tot, k, getattr(tot, k) + getattr(res, k))
        tot.outcomes.update(res.outcomes)
        tot.flags.update(res.flags)
        tot.known.update(res.known)
        tot.caps += res.caps
    print('wall %.1fs' % (time.time() - t0), {k: getattr(tot, k) for k in ('evaluations', 'nontrivial', 'states', 'transitions', 'formulas', 'nviol')})
    print('outcomes', dict(tot.outcomes))
    print('flags', dict(tot.flags))
    print('known', dict(tot.known), 'caps', tot.caps[:3])


if __name__ == '__main__':
    main()
