"""Uniform way of running one specification text under each of the four monitor kinds."""
from . import impl
from . import dref


def dt_values(kind, spec, trace, times=None):
    """list of robustness values, one per sample.  kind dt_off: evaluate; dt_on: one update per sample"""
    n = len(next(iter(trace.values())))
    if kind == 'dt_off':
        out = impl.dt_evaluate(spec, trace, times)
        return [p[1] for p in out]
    vals = []
    for i in range(n):
        vals.append(impl.dt_update(spec, times[i] if times else i, {v: s[i] for v, s in trace.items()}))
    return vals


def grid_signal(trace, period=1.0, t0=0.0):
    """discrete trace -> dense sample lists on the sampling grid"""
    return {v: [(t0 + i * period, x) for i, x in enumerate(s)] for v, s in trace.items()}


def ct_samples(kind, spec, signals, chunk='all'):
    """sample list; ct_off: evaluate; ct_on: update (all at once, or one sample at a time, outputs concatenated)"""
    if kind == 'ct_off':
        return impl.ct_evaluate(spec, signals)
    if chunk == 'all':
        return [list(p) for p in impl.ct_update(spec, signals)]
    n = max(len(s) for s in signals.values())
    out = []
    for i in range(n):
        out += [list(p) for p in impl.ct_update(spec, {v: s[i:i + 1] for v, s in signals.items()})]
    return out


def at(samples, t):
    return dref.stepval(samples, t)
