"""Token-level model of the specification language: the productions of LtlParser.g4 / StlParser.g4 transcribed as data,
an Earley recogniser, a word -> token-type map mirroring LtlLexer.g4, and a self-check that binds the transcription to
the .g4 files of the working tree (every rule name and every alternative label must be accounted for).
No rtamt import.
"""
import os
import re

GRAMMAR_DIR = os.path.join(os.environ.get('VERIF_REPO') or '/repo', 'rtamt/antlr/grammar/tl')

KEYWORDS = {
    '-': 'MINUS', '+': 'PLUS', '*': 'TIMES', '/': 'DIVIDE', '(': 'LPAREN', ')': 'RPAREN', '{': 'LBRACE', '}': 'RBRACE',
    '[': 'LBRACK', ']': 'RBRACK', ';': 'SEMICOLON', ':': 'COLON', ',': 'COMMA', '.': 'DOT', '@': 'AT',
    'abs': 'ABS', 'sqrt': 'SQRT', 'exp': 'EXP', 'pow': 'POW', 'log': 'LOG', 'ln': 'LN',
    's': 'SEC', 'ms': 'MSEC', 'us': 'USEC', 'ns': 'NSEC', 'ps': 'PSEC', 'topic': 'ROS_Topic', 'import': 'Import',
    'input': 'Input', 'output': 'Output', 'internal': 'Internal', 'const': 'Constant', 'real': 'DomainTypeReal',
    'float': 'DomainTypeFloat', 'long': 'DomainTypeLong', 'complex': 'DomainTypeComplex', 'int': 'DomainTypeInt',
    'bool': 'DomainTypeBool', 'assertion': 'Assertion', 'specification': 'Specification', 'from': 'From',
    'not': 'NotOperator', '!': 'NotOperator', 'or': 'OrOperator', '|': 'OrOperator', 'and': 'AndOperator', '&': 'AndOperator',
    'iff': 'IffOperator', '<->': 'IffOperator', 'implies': 'ImpliesOperator', '->': 'ImpliesOperator', 'xor': 'XorOperator',
    'rise': 'RiseOperator', 'fall': 'FallOperator', 'always': 'AlwaysOperator', 'G': 'AlwaysOperator',
    'eventually': 'EventuallyOperator', 'F': 'EventuallyOperator', 'until': 'UntilOperator', 'U': 'UntilOperator',
    'unless': 'UnlessOperator', 'W': 'UnlessOperator', 'historically': 'HistoricallyOperator', 'H': 'HistoricallyOperator',
    'once': 'OnceOperator', 'O': 'OnceOperator', 'since': 'SinceOperator', 'S': 'SinceOperator', 'next': 'NextOperator',
    'X': 'NextOperator', 'prev': 'PreviousOperator', 'Y': 'PreviousOperator', 's_next': 'StrongNextOperator',
    'sX': 'StrongNextOperator', 's_prev': 'StrongPreviousOperator', 'sY': 'StrongPreviousOperator',
    '==': 'EqualOperator', '!==': 'NotEqualOperator', '>=': 'GreaterOrEqualOperator', '<=': 'LesserOrEqualOperator',
    '>': 'GreaterOperator', '<': 'LesserOperator', '=': 'EQUAL', 'true': 'BooleanLiteral', 'false': 'BooleanLiteral',
    'TRUE': 'BooleanLiteral', 'FALSE': 'BooleanLiteral',
}

# literals as in LtlLexer.g4 (decimal / hex / binary numerals with underscores, reals with optional exponent)
_DIGITS = r'[0-9](?:[0-9_]*[0-9])?'
_EXP = r'[eE][+-]?[0-9]+'
_INT = re.compile(r'^(?:0|[1-9](?:(?:%s)?|_+%s)|0[xX][0-9a-fA-F](?:[0-9a-fA-F_]*[0-9a-fA-F])?|0[bB][01](?:[01_]*[01])?)$' % (_DIGITS, _DIGITS))
_REAL = re.compile(r'^(?:%s\.(?:%s)?(?:%s)?|\.%s(?:%s)?|%s%s)$' % (_DIGITS, _DIGITS, _EXP, _DIGITS, _EXP, _DIGITS, _EXP))
_ID = re.compile(r'^[A-Za-z_$][A-Za-z_$0-9./]*$')


def token_type(word):
    """token type of a white-space delimited word (the word must be exactly one token)"""
    if word in KEYWORDS:
        return KEYWORDS[word]
    if _INT.match(word):
        return 'IntegerLiteral'
    if _REAL.match(word):
        return 'RealLiteral'
    if _ID.match(word):
        return 'Identifier'
    raise ValueError('not a single token: %r' % (word,))


# ---- productions: nonterminal -> list of right-hand sides (tuples of symbols); terminals are token type names
def _opt(*alts):
    return alts


G = {
    'specification_file': [('specification',)],
    'specification': [('spec_opt', 'modimports', 'decls', 'assertions')],
    'spec_opt': [(), ('spec',)],
    'modimports': [(), ('modimport', 'modimports')],
    'decls': [(), ('declaration', 'decls'), ('annotation', 'decls')],
    'assertions': [('assertion',), ('assertion', 'assertions')],
    'spec': [('Specification', 'Identifier')],
    'modimport': [('From', 'Identifier', 'Import', 'Identifier')],
    'assertion': [('expression', 'SEMICOLON'), ('Identifier', 'EQUAL', 'expression', 'SEMICOLON')],
    'declaration': [('variableDeclaration',), ('constantDeclaration',)],
    'annotation': [('AT', 'annotation_type')],
    'annotation_type': [('ROS_Topic', 'LPAREN', 'Identifier', 'COMMA', 'Identifier', 'RPAREN')],
    'variableDeclaration': [('domainType', 'Identifier'), ('ioType', 'domainType', 'Identifier'),
                            ('domainType', 'Identifier', 'assignment'), ('ioType', 'domainType', 'Identifier', 'assignment')],
    'constantDeclaration': [('Constant', 'domainType', 'Identifier', 'EQUAL', 'literal')],
    'assignment': [('EQUAL', 'literal'), ('EQUAL', 'expression')],
    'domainType': [('DomainTypeFloat',), ('DomainTypeInt',), ('DomainTypeLong',), ('DomainTypeComplex',), ('Identifier',)],
    'ioType': [('Input',), ('Output',)],
    'interval': [('LBRACK', 'intervalTime', 'COLON', 'intervalTime', 'RBRACK'), ('LBRACK', 'intervalTime', 'COMMA', 'intervalTime', 'RBRACK')],
    'intervalTime': [('literal',), ('literal', 'unit'), ('Identifier',), ('Identifier', 'unit')],
    'unit': [('SEC',), ('MSEC',), ('USEC',), ('NSEC',)],
    'interval_opt': [(), ('interval',)],
    'expression': [
        ('LPAREN', 'expression', 'RPAREN'),
        ('MINUS', 'expression'),
        ('ABS', 'LPAREN', 'expression', 'RPAREN'), ('SQRT', 'LPAREN', 'expression', 'RPAREN'), ('EXP', 'LPAREN', 'expression', 'RPAREN'),
        ('POW', 'LPAREN', 'expression', 'COMMA', 'expression', 'RPAREN'), ('LOG', 'LPAREN', 'expression', 'COMMA', 'expression', 'RPAREN'),
        ('LN', 'LPAREN', 'expression', 'RPAREN'),
        ('expression', 'multdivOp', 'expression'), ('expression', 'addsubOp', 'expression'),
        ('expression', 'comparisonOp', 'expression'),
        ('NotOperator', 'expression'),
        ('AlwaysOperator', 'interval_opt', 'expression'), ('EventuallyOperator', 'interval_opt', 'expression'),
        ('HistoricallyOperator', 'interval_opt', 'expression'), ('OnceOperator', 'interval_opt', 'expression'),
        ('PreviousOperator', 'expression'), ('NextOperator', 'expression'),
        ('StrongPreviousOperator', 'expression'), ('StrongNextOperator', 'expression'),
        ('expression', 'UntilOperator', 'interval_opt', 'expression'), ('expression', 'UnlessOperator', 'interval_opt', 'expression'),
        ('expression', 'SinceOperator', 'interval_opt', 'expression'),
        ('expression', 'AndOperator', 'expression'), ('expression', 'OrOperator', 'expression'),
        ('expression', 'ImpliesOperator', 'expression'), ('expression', 'IffOperator', 'expression'), ('expression', 'XorOperator', 'expression'),
        ('RiseOperator', 'LPAREN', 'expression', 'RPAREN'), ('FallOperator', 'LPAREN', 'expression', 'RPAREN'),
        ('Identifier',), ('literal',),
    ],
    'multdivOp': [('TIMES',), ('DIVIDE',)],
    'addsubOp': [('PLUS',), ('MINUS',)],
    'comparisonOp': [('LesserOrEqualOperator',), ('GreaterOrEqualOperator',), ('LesserOperator',), ('GreaterOperator',),
                     ('EqualOperator',), ('NotEqualOperator',)],
    'literal': [('IntegerLiteral',), ('RealLiteral',)],
}

EXPECTED_RULES = {'specification_file', 'specification', 'spec', 'modimport', 'assertion', 'declaration', 'annotation', 'annotation_type',
                  'variableDeclaration', 'constantDeclaration', 'assignment', 'domainType', 'ioType', 'expression', 'multdivOp', 'addsubOp',
                  'comparisonOp', 'literal', 'interval', 'intervalTime', 'unit'}
EXPECTED_LABELS_STL = ['ExprParen', 'ExprNegate', 'ExprAbs', 'ExprSqrt', 'ExprExp', 'ExprPow', 'ExprLog', 'ExprLn', 'ExprMultDiv', 'ExprAddSub',
                       'ExprPredicate', 'ExprNot', 'ExprAlways', 'ExprEv', 'ExprHist', 'ExpreOnce', 'ExprPrevious', 'ExprNext',
                       'ExprStrongPrevious', 'ExprStrongNext', 'ExprUntil', 'ExprUnless', 'ExprSince', 'ExprAnd', 'ExprOr', 'ExprImplies',
                       'ExprIff', 'ExprXor', 'ExprRise', 'ExprFall', 'ExprId', 'ExprLiteral']


def expression_labels(path):
    g = open(path).read()
    body = g[g.index('\nexpression'):]
    body = body[:body.index(';', body.index('#ExprLiteral')) if '#ExprLiteral' in body else len(body)]
    return re.findall(r'#(\w+)', body)


def selfcheck():
    """the transcription above must describe the .g4 files of the working tree; returns a list of problems"""
    problems = []
    try:
        stl = open(os.path.join(GRAMMAR_DIR, 'StlParser.g4')).read()
        ltl = open(os.path.join(GRAMMAR_DIR, 'LtlParser.g4')).read()
        lex = open(os.path.join(GRAMMAR_DIR, 'LtlLexer.g4')).read()
    except Exception as e:
        return ['cannot read the grammar files: %s' % e]
    rules = set(re.findall(r'^([a-z_A-Z]+)\s*\n?\s*:', stl + '\n' + ltl, re.M)) - {'options'}
    rules = {r for r in rules if r[0].islower()}
    if rules != EXPECTED_RULES:
        problems.append('parser rules changed: %r' % sorted(rules ^ EXPECTED_RULES))
    labels = expression_labels(os.path.join(GRAMMAR_DIR, 'StlParser.g4'))
    if labels != EXPECTED_LABELS_STL:
        problems.append('StlParser.g4 expression alternatives changed: %r' % (labels,))
    # every keyword spelling of the model must be a literal of the lexer grammar
    lits = set(re.findall(r"'([^']+)'", lex))
    for w in KEYWORDS:
        if w not in lits:
            problems.append('keyword %r is not a literal of LtlLexer.g4' % w)
    return problems


class Earley(object):
    def __init__(self, grammar, start):
        self.g = grammar
        self.start = start
        self.nullable = self._nullable()

    def _nullable(self):
        nul = set()
        changed = True
        while changed:
            changed = False
            for a, rhss in self.g.items():
                if a in nul:
                    continue
                for r in rhss:
                    if all(s in nul for s in r):
                        nul.add(a)
                        changed = True
                        break
        return nul

    def accepts(self, toks):
        g = self.g
        n = len(toks)
        S = [set() for _ in range(n + 1)]
        order = [[] for _ in range(n + 1)]

        def add(i, item):
            if item not in S[i]:
                S[i].add(item)
                order[i].append(item)
        for r in g[self.start]:
            add(0, (self.start, r, 0, 0))
        for i in range(n + 1):
            k = 0
            while k < len(order[i]):
                a, r, d, o = order[i][k]
                k += 1
                if d < len(r):
                    sym = r[d]
                    if sym in g:
                        for rr in g[sym]:
                            add(i, (sym, rr, 0, i))
                        if sym in self.nullable:
                            add(i, (a, r, d + 1, o))
                    elif i < n and toks[i] == sym:
                        add(i + 1, (a, r, d + 1, o))
                else:
                    for (a2, r2, d2, o2) in list(S[o]):
                        if d2 < len(r2) and r2[d2] == a:
                            add(i, (a2, r2, d2 + 1, o2))
        return any(a == self.start and d == len(r) and o == 0 for (a, r, d, o) in S[n])


_REC = None


def in_language(words):
    """membership of a word sequence (parse() appends ';' when the text does not end with one)"""
    global _REC
    if _REC is None:
        _REC = Earley(G, 'specification_file')
    toks = [token_type(w) for w in words]
    if not toks or toks[-1] != 'SEMICOLON':
        toks = toks + ['SEMICOLON']
    return _REC.accepts(toks)
