"""Baseline of the C11 isolation check: the calls of ONE specification object, executed in a fresh interpreter in which no other
specification object has ever existed.  stdin: JSON {'obj': [...], 'seq': [...]}; stdout: JSON list with the repr of every outcome."""
import json
import sys
import tempfile

sys.pycache_prefix = tempfile.mkdtemp(prefix='vf_pyc_')


def main():
    from .checks import c11
    d = json.load(sys.stdin)
    o = d['obj']
    obj = tuple(o[:3]) + (tuple(o[3]), o[4], o[5]) + ((tuple(o[6]),) if len(o) > 6 else ())
    spec = c11.make(obj)
    out = []
    for call in d['seq']:
        out.append(repr(c11.do_call(spec, tuple(call))))
    json.dump(out, sys.stdout)


if __name__ == '__main__':
    main()
