"""C17 - well-formed use never crashes; unsupported constructs are rejected cleanly (engine E1)."""
import itertools
import sys

from .. import formula as F
from .. import refsem
from .. import impl
from .. import kinds

ID = 'C17'
LEVEL = 'exploration'
RULE = ('operator x monitor-kind matrix: every operator alone and nested under/above every other operator (<=2 operators, unbounded and [0,1] variants), '
        'every arithmetic operator in a predicate, x {discrete offline, discrete online, discrete online pastified, dense offline, dense online, dense online '
        'pastified} x data shapes {1 sample, 3 samples} x {plain, a declared variable z that the formula does not use (with and without data), a supplied '
        'variable u that is not declared, variables listed in reverse order, a data set (same dict and list objects) evaluated twice and on a second object, an object that held and evaluated another specification before and was given the text with spec.spec = ...; parse() again}; supported combinations must return normally; unsupported ones (unbounded '
        'future online, prev/next/s_prev/s_next/rise/fall in dense time, until in the dense online monitor) must raise RTAMTException at parse(), '
        'pastify() or the first evaluation - never return a value, never raise another exception type; non-trivial = unsupported combination, or a '
        'supported one with a non-plain data shape')
ASSUMPTIONS = ['support matrix as stated in the property; values only checked for being returned (correctness is C01-C05)',
               'sqrt/ln/log/pow atoms are fed positive samples only (math domain errors are out of scope)']

DISCRETE_ONLY = ('prev', 's_prev', 'next', 's_next', 'rise', 'fall')


def formula_set(tier):
    I = ((0, 1),) if tier == 'quick' else ((0, 1), (1, 2))
    U = F.unary_ops(I)
    B = F.binary_ops(I)
    fs = list(F.F(2, U, B, [(F.PX, F.PY, F.X)]))
    X, Y = F.X, F.Y
    ar = [('neg', X), ('abs', X), ('sqrt', X), ('exp', X), ('ln', X), ('pow', X, Y), ('log', X, Y), ('+', X, Y), ('-', X, Y), ('*', X, Y), ('/', X, Y)]
    ar += [('*', F.C2, X), ('+', F.C1, X), ('-', F.C2, Y)]           # constants as left operands
    fs += [('pred', '<=', F.C1, X), ('until', (0, 1), ('pred', '<=', F.C1, X), F.PY)]
    # every function over an operand that contains a literal, and over a literal alone (the literal is expanded to the length of the trace
    # somewhere below the function)
    inner = [('*', X, F.CH), ('+', X, F.C1), ('-', F.C2, X)]
    for u in F.ARITH1:
        ar += [(u, a) for a in inner]
    for b in F.ARITH2 + F.ARITHF2:
        ar += [(b, inner[1], F.C2), (b, F.C2, inner[0])]
    for t in ar:
        a = ('pred', '>=', t, F.C0)
        fs += [a, ('once', (0, 1), a), ('not', a), ('eventually', (0, 1), a), t]
    # three operators: a connective over a future-free operand and a bounded-future operand (pastify() delays the former; an unsupported
    # operator inside the delayed operand must still be rejected)
    sib = F.sibling_formulas()
    fs += sib[::4] if tier == 'quick' else sib
    # a bare variable under a bounded operator whose window is longer than the short traces, next to a predicate / arithmetic node that reads the
    # same variable (one list read by two nodes)
    for op in ('always', 'eventually', 'once', 'historically'):
        for I in ((0, 1), (0, 3), (2, 4)):
            b = (op, I, X)
            for partner in (('pred', '>=', X, Y), ('pred', '>=', ('+', X, Y), F.C0), ('pred', '<=', ('abs', X), F.C1)):
                fs += [('and', b, partner), ('or', partner, b)]
            fs += [('pred', '>=', ('+', b, X), F.C0), ('until', (0, 1), ('pred', '>=', X, F.C0), b)]
    return fs


def shards(tier):
    fs = formula_set(tier)
    per = 12
    return [{'formulas': [F.to_json(f) for f in fs[i:i + per]]} for i in range(0, len(fs), per)] + [{'nesting': c} for c in sorted(NEST)]


PLANS = (('dt_off', False), ('dt_on', False), ('dt_on', True), ('ct_off', False), ('ct_on', False), ('ct_on', True))
SHAPES = ('plain', 'unused_declared_with_data', 'unused_declared_no_data', 'undeclared_supplied', 'reversed', 'reevaluate_shorter', 'unused_subspec', 'reparsed', 'dataset_reused')


def supported(f, kind, pastify):
    unb = F.is_temporal_unbounded_future(f)
    fut = F.has_op(f, F.FUTURE)
    if kind.startswith('ct') and F.has_op(f, DISCRETE_ONLY):
        return False
    if kind == 'dt_off' or kind == 'ct_off':
        return True
    if not pastify:
        return not fut
    if unb:
        return False
    if kind == 'ct_on' and F.has_op(f, ('until', 'unless')):
        return False
    return True


def positive_only(f):
    return F.has_op(f, ('sqrt', 'ln', 'log', 'pow', '/'))


def run_case(case):
    """('ok'|'rtamt'|'exc', detail, stage)"""
    f = F.from_json(case['formula'])
    kind, pastify, shape, n = case['kind'], case['pastify'], case['shape'], case['n']
    vs = sorted(F.fvars(f))
    decl = list(vs)
    if shape.startswith('unused_declared'):
        decl.append('z')
    if shape == 'reversed':
        decl = decl[::-1]
    subs = ()
    if shape == 'unused_subspec':
        # a named sub-formula that the final formula never refers to (legal, e.g. kept for get_value)
        subs = ('q9 = (%s >= 0);' % (vs[0] if vs else 'x'), 'q8 = once[0,1] (%s <= 1);' % (vs[-1] if vs else 'x'))
    if shape == 'reparsed':
        # the object held ANOTHER specification before (one whose data domain the samples below leave: sqrt of a negative number), was used
        # once with it, and is then given the text under test and parsed again: from then on only the new text counts
        v0 = vs[0] if vs else 'x'
        k, spec = impl.outcome(impl.build, kind, 'out = (once[0,1] (%s >= 0)) and (sqrt(%s - 100) >= 0)' % (v0, v0), decl or ['x'], pastify=False)
        if k != 'ok':
            return k, spec, 'parse of the earlier text'
        if kind.endswith('off'):
            first = {v: [1.0, 2.0] for v in (decl or ['x'])}
            impl.outcome(impl.dt_evaluate if kind == 'dt_off' else impl.ct_evaluate, spec, first if kind == 'dt_off' else kinds.grid_signal(first))
        else:
            first = {v: 1.0 for v in (decl or ['x'])}
            impl.outcome(impl.dt_update, spec, 0, first) if kind == 'dt_on' else impl.outcome(impl.ct_update, spec, {v: [(0.0, 1.0)] for v in first})
        spec.spec = case['spec']
        k, r = impl.outcome(spec.parse)
        if k != 'ok':
            return k, r, 'parse'
    else:
        k, spec = impl.outcome(impl.build, kind, case['spec'], decl or ['x'], pastify=False, subspecs=subs)
        if k != 'ok':
            return k, spec, 'parse'
    if pastify:
        k, r = impl.outcome(spec.pastify)
        if k != 'ok':
            return k, r, 'pastify'
    if shape == 'reparsed' and kind.endswith('on'):
        k, r = impl.outcome(spec.reset)
        if k != 'ok':
            return k, r, 'update 1'
    vals = (0.5, 2.0, 4.0) if positive_only(f) else (-1.0, 2.0, 0.0)
    data_vars = list(vs)
    if shape == 'unused_declared_with_data':
        data_vars.append('z')
    if shape == 'undeclared_supplied':
        data_vars.append('u')
    if shape == 'reversed':
        data_vars = data_vars[::-1]
    w = {v: [vals[(i + j) % 3] for i in range(n)] for j, v in enumerate(data_vars)}
    try:
        refsem.ev(f, w, n)
        if shape == 'reevaluate_shorter':
            refsem.ev(f, {v: [vals[(i + j) % 3] for i in range(n + 3)] for j, v in enumerate(data_vars)}, n + 3)
    except refsem.DomainError:
        return 'domain', 'the data leave the domain of an arithmetic function (log of base 1, sqrt of a negative number ...)', 'data'
    except Exception:
        pass
    if kind == 'dt_off':
        if shape == 'reevaluate_shorter':
            # the same object first sees a longer data set (legal: the offline monitors are re-usable)
            wl = {v: [vals[(i + j) % 3] for i in range(n + 3)] for j, v in enumerate(data_vars)}
            k, r = impl.outcome(impl.dt_evaluate, spec, wl)
            if k != 'ok':
                return k, r, 'evaluate'
        if shape == 'dataset_reused':
            # the caller keeps its data set (one dict, one list per column) and evaluates it twice, the second time on a second fresh object as well
            d = dict({'time': list(range(n))}, **{v: list(w[v]) for v in data_vars})
            k, r = impl.outcome(spec.evaluate, d)
            if k != 'ok':
                return k, r, 'evaluate'
            k, r = impl.outcome(spec.evaluate, d)
            if k != 'ok':
                return k, r, 'second evaluate() of the same data set'
            k2, spec2 = impl.outcome(impl.build, kind, case['spec'], decl or ['x'], pastify=False, subspecs=subs)
            k, r = impl.outcome(spec2.evaluate, d) if k2 == 'ok' else (k2, spec2)
            return k, r, 'evaluate() of the same data set on a second specification object'
        k, r = impl.outcome(impl.dt_evaluate, spec, w)
        return k, r, 'evaluate'
    if kind == 'dt_on':
        for i in range(n):
            k, r = impl.outcome(impl.dt_update, spec, i, {v: w[v][i] for v in data_vars})
            if k == 'rtamt':
                # a caller that catches the rejection and tries again must be rejected again, in the same clean way
                k2, r2 = impl.outcome(impl.dt_update, spec, i, {v: w[v][i] for v in data_vars})
                if k2 != 'rtamt':
                    return ('exc' if k2 != 'ok' else 'ok'), 'after a first rejection the same call %s' % ('returned %r' % (r2,) if k2 == 'ok' else 'raised %s' % (r2,)), 'update %d (second attempt)' % (i + 1)
            if k != 'ok':
                return k, r, 'update %d' % (i + 1)
        return 'ok', r, 'update'
    sig = kinds.grid_signal(w)
    if kind == 'ct_off':
        if shape == 'reevaluate_shorter':
            wl = {v: [vals[(i + j) % 3] for i in range(n + 3)] for j, v in enumerate(data_vars)}
            k, r = impl.outcome(impl.ct_evaluate, spec, kinds.grid_signal(wl))
            if k != 'ok':
                return k, r, 'evaluate'
        if shape == 'dataset_reused':
            args = [[v, [[t, x] for t, x in sig[v]]] for v in data_vars]
            k, r = impl.outcome(spec.evaluate, *args)
            if k != 'ok':
                return k, r, 'evaluate'
            k, r = impl.outcome(spec.evaluate, *args)
            return k, r, ('evaluate' if k == 'ok' else 'second evaluate() of the same data set')
        k, r = impl.outcome(impl.ct_evaluate, spec, sig)
        return k, r, 'evaluate'
    for i in range(n):
        k, r = impl.outcome(impl.ct_update, spec, {v: sig[v][i:i + 1] for v in data_vars})
        if k == 'rtamt':
            k2, r2 = impl.outcome(impl.ct_update, spec, {v: sig[v][i:i + 1] for v in data_vars})
            if k2 != 'rtamt':
                return ('exc' if k2 != 'ok' else 'ok'), 'after a first rejection the same call %s' % ('returned %r' % (r2,) if k2 == 'ok' else 'raised %s' % (r2,)), 'update %d (second attempt)' % (i + 1)
        if k != 'ok':
            return k, r, 'update %d' % (i + 1)
    return 'ok', r, 'update'


def judge(case):
    f = F.from_json(case['formula'])
    sup = supported(f, case['kind'], case['pastify'])
    k, detail, stage = run_case(case)
    if k == 'domain':
        return None, sup      # outside the property: not well-formed data for this formula
    if sup:
        if k != 'ok':
            return 'supported combination (%s%s, data shape %s, %d samples) raised at %s: %s' % (
                case['kind'], ' pastified' if case['pastify'] else '', case['shape'], case['n'], stage, detail), sup
        return None, sup
    if k == 'ok':
        return 'unsupported construct under %s%s was not rejected: %s returned %r' % (
            case['kind'], ' pastified' if case['pastify'] else '', stage, detail), sup
    if k == 'exc':
        if stage.startswith('update') and stage not in ('update 1',):
            return 'unsupported construct raised only at %s (%s)' % (stage, detail), sup
        return 'unsupported construct under %s%s raised %s at %s instead of RTAMTException' % (
            case['kind'], ' pastified' if case['pastify'] else '', detail, stage), sup
    if stage.startswith('update') and stage != 'update 1':
        return 'unsupported construct rejected only at %s' % stage, sup
    return None, sup


# ---- deeply nested but perfectly ordinary specifications (a conjunction of 200 requirements, a long sum), run under the DEFAULT recursion
# limit of the interpreter (the harness itself runs with a larger one)
NEST = {
    'and-chain': lambda d: ' and '.join(['(x >= 0)'] * (d + 1)),
    'or-chain-right': lambda d: ' or ('.join(['(y <= 1)'] * (d + 1)) + ')' * d,
    'sum': lambda d: ' + '.join(['x'] * (d + 1)) + ' >= 0',
    'not': lambda d: 'not ' * d + '(x >= 0)',
    'prev': lambda d: 'prev ' * d + '(x >= 0)',
    'once': lambda d: 'once[0,1] ' * d + '(x >= 0)',
    'parentheses': lambda d: '(' * d + 'x >= 0' + ')' * d,
    'abs': lambda d: 'abs(' * d + 'x' + ')' * d + ' >= 0',
}
NEST_DEPTHS = (10, 25, 50, 100, 150, 200, 300)
DEFAULT_RECURSION_LIMIT = 1000


def site(case):
    """open finding: the evaluators are recursive visitors, a specification nested about 150 operators deep exhausts Python's default
    recursion limit at evaluate()/update() although parse() accepted it"""
    if case.get('mode') == 'nesting' and case.get('depth', 0) >= 100 and 'RecursionError' in str(case.get('what', '')):
        return 'C17-recursion-limit'
    return None


def nesting_case(case):
    """message | None: a specification that parse() accepts must be evaluated normally"""
    text = 'out = ' + NEST[case['construct']](case['depth'])
    kind = case['kind']
    if kind.startswith('ct') and case['construct'] == 'prev':
        return None
    old = sys.getrecursionlimit()
    sys.setrecursionlimit(DEFAULT_RECURSION_LIMIT)
    try:
        k, spec = impl.outcome(impl.build, kind, text, ['x', 'y'])
        if k == 'rtamt':
            return None           # refused cleanly (C14 decides whether that is acceptable)
        if k != 'ok':
            return 'parse() raised %s' % (spec,)
        w = {'x': [1.0, -1.0, 2.0], 'y': [0.0, 2.0, 1.0]}
        if kind == 'dt_off':
            k, r = impl.outcome(impl.dt_evaluate, spec, w)
        elif kind == 'dt_on':
            for i in range(3):
                k, r = impl.outcome(impl.dt_update, spec, i, {v: w[v][i] for v in w})
                if k != 'ok':
                    break
        elif kind == 'ct_off':
            k, r = impl.outcome(impl.ct_evaluate, spec, kinds.grid_signal(w))
        else:
            k, r = impl.outcome(impl.ct_update, spec, kinds.grid_signal(w))
    finally:
        sys.setrecursionlimit(old)
    if k != 'ok':
        return 'a specification nested %d deep (%s) is accepted by parse() but %s raised %s' % (
            case['depth'], case['construct'], 'evaluate()' if kind.endswith('off') else 'update()', str(r)[:120])
    return None


def run_nesting(res, mod, construct):
    if True:
        for depth in NEST_DEPTHS:
            for kind in ('dt_off', 'dt_on', 'ct_off', 'ct_on'):
                case = {'mode': 'nesting', 'construct': construct, 'depth': depth, 'kind': kind}
                res.evaluations += 1
                msg = nesting_case(case)
                if msg:
                    res.violation(mod, case, msg)
                    res.outcomes['nested: raised'] += 1
                else:
                    res.outcomes['nested: ok'] += 1
                    res.nontrivial += 1
                res.digest(construct, depth, kind, msg)
    res.sample({'spec': 'out = ' + NEST['and-chain'](3), 'depth': 3, 'recursion_limit': DEFAULT_RECURSION_LIMIT}, 1)


def run_shard(shard, tier, res):
    mod = sys.modules[__name__]
    if shard.get('nesting'):
        return run_nesting(res, mod, shard['nesting'])
    for fj in shard['formulas']:
        f = F.from_json(fj)
        text = 'out = ' + F.pr(f)
        res.formulas += 1
        for (kind, pastify), shape, n in itertools.product(PLANS, SHAPES, (1, 3)):
            if shape == 'reversed' and len(F.fvars(f)) < 2:
                continue
            case = {'formula': fj, 'spec': text, 'kind': kind, 'pastify': pastify, 'shape': shape, 'n': n}
            res.evaluations += 1
            msg, sup = judge(case)
            if msg:
                res.violation(mod, case, msg)
                res.outcomes[('supported raised' if sup else 'unsupported not rejected cleanly')] += 1
            else:
                res.outcomes['supported ok' if sup else 'rejected cleanly'] += 1
                if not sup or shape != 'plain':
                    res.nontrivial += 1
            res.digest(text, kind, pastify, shape, n, msg)
        res.sample({'spec': text, 'kind': 'ct_on', 'pastify': False, 'shape': 'unused_declared_with_data', 'n': 1,
                    'supported': supported(f, 'ct_on', False)}, 1)


def replay(case):
    if case.get('mode') == 'nesting':
        m = nesting_case(case)
        return [m] if m else []
    m, _ = judge(case)
    return [m] if m else []


def finalize(agg, outcomes, flags, tier):
    from ..runner import Broken
    if not outcomes.get('supported ok') or not outcomes.get('rejected cleanly'):
        raise Broken('vacuous: outcomes %r' % dict(outcomes))
    return {}
