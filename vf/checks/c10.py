"""C10 - reset() returns an online monitor to its initial state (engine E2)."""
import copy
import itertools
import sys

from .. import formula as F
from .. import refsem
from .. import impl
from .. import explore
from . import c02, c03, c05

ID = 'C10'
LEVEL = 'model_checking'
RULE = ('BFS over pre-reset update() histories of the real online monitor (discrete: product BFS as in C02, dense: all schedule prefixes as in C05); '
        'in EVERY reached state reset() is applied to the real object and a family of post-reset input sequences (all sequences of length <= 2 '
        'over the event alphabet plus constant probes longer than the largest bound, plus - for two variables - update() calls that leave one variable out; dense: fixed probe signals in two chunkings) is fed; every '
        'post-reset output and sampling_violation_counter value must equal what a freshly parsed (and pastified) monitor returns for the same inputs; '
        'the initial state is included (reset() before the first update); after every probe a second reset() and the probe once more, replayed from time-stamp 0; a (state, probe) pair is one checked obligation; '
        'interface-aware layer: the same for monitors under the non-standard semantics with input/output declarations (predicates that contribute +-inf or 0 drive unbounded operators to their absorbing values); '
        'faulty layer: pre-reset histories over an alphabet that contains samples outside the domain of sqrt/ln/log/division, so that they contain update() calls '
        'the monitor rejects half-way through its walk - reset() after such a history must still give the behaviour of a fresh monitor')
ASSUMPTIONS = ['post-reset behaviour is compared on a bounded family of input sequences, not on all futures',
               'pre-reset time-stamps have gaps of 3 periods so that the violation counter is non-zero before reset()']


class ResetModel(c02.DtOnlineModel):
    """pre-reset exploration: no oracle on the way, only state discovery"""

    def apply(self, obj, hist, e):
        return impl.outcome(impl.dt_update, obj, 3 * len(hist), dict(zip(self.vs, e)))

    def check(self, hist, out, obj):
        if out[0] != 'ok':
            return explore.PRUNE
        return None

    def probes(self):
        E = self.events
        K = F.max_bound(self.f) + self.delay + 2
        ps = [(a, b) for a in E for b in E] + [tuple([e] * K) for e in E]
        if len(self.vs) == 2:
            # post-reset update() calls that leave a variable out (None): a fresh monitor then works with the variable's initial value,
            # and so must a monitor that was reset - whatever the variable held before
            xs = sorted({e[0] for e in E})
            ys = sorted({e[1] for e in E})
            ps += [((x, None),) for x in xs] + [((None, y), (x, None)) for x in xs[:2] for y in ys[:2]]
        return ps

    def run_probe(self, obj, q, t0=100):
        """feed q to obj; returns list of (outcome, counter)"""
        outs = []
        for i, e in enumerate(q):
            o = impl.outcome(impl.dt_update, obj, t0 + i, {v: x for v, x in zip(self.vs, e) if x is not None})
            outs.append((explore.snapshot(o), obj.sampling_violation_counter))
        return outs


class FaultyResetModel(ResetModel):
    """pre-reset histories that contain update() calls the monitor REJECTS (a sample outside the domain of sqrt / ln / log / division):
    such a call may leave the operators visited before the failing node stepped and the counters untouched.  Nothing is pruned: the state
    after a rejected call is a state like any other, and reset() must lead from it to the behaviour of a fresh monitor."""

    def __init__(self, f, **kw):
        ResetModel.__init__(self, f, (FAULT_X, FAULT_Y), **kw)
        self.failed = set()

    def check(self, hist, out, obj):
        if out[0] != 'ok' or hist[:-1] in self.failed:
            self.failed.add(hist)
        return None

    def probes(self):
        E = [e for e in self.events if e[-1] == FAULT_Y[-1]]      # post-reset inputs stay inside the domain
        K = F.max_bound(self.f) + self.delay + 2
        return [(a, b) for a in E for b in E] + [tuple([e] * K) for e in E]


FAULT_X = (-1.0, 2.0)
FAULT_Y = (-1.0, 0.0, 4.0)      # -1: outside sqrt, ln, log; 0: outside ln, log and division; 4: inside all


def fault_cases(tier):
    px, X, Y = F.PX, F.X, F.Y
    c0 = F.C0
    sq, ln, lg = ('sqrt', Y), ('ln', Y), ('log', Y, ('const', 2.0))
    out = []
    for st in (('once', (0, 2), X), ('prev', X), ('historically', None, X), ('once', None, X), ('once', (1, 3), X), ('historically', (0, 5), X)):
        for part in (sq, ln, lg, ('/', F.C1, Y)):
            out.append(('pred', '>=', ('+', st, part), c0))       # the stateful operand is stepped before the failing one
            out.append(('pred', '>=', ('+', part, st), c0))       # ... and after it
    out += [('since', None, px, ('pred', '>=', sq, F.C1)), ('since', (1, 2), ('pred', '>=', ln, c0), px), ('and', ('rise', px), ('pred', '>=', sq, F.C1)),
            ('or', ('prev', ('pred', '>=', sq, F.C1)), ('once', (0, 1), px)), ('once', (0, 2), ('pred', '>=', ('+', X, sq), c0))]
    return out[::3] if tier == 'quick' else out


def dt_cases(tier):
    """(formula, pastify, subspec texts, top text or None)"""
    quick = tier == 'quick'
    past = c02.formula_set(tier)
    fut = c03.formula_set(tier)
    step_p, step_f = (12, 25) if quick else (6, 12)
    out = [(f, False, (), None) for f in past[::step_p]] + [(f, True, (), None) for f in fut[::step_f]]
    px, py = F.PX, F.PY
    for iv in ((2, 3), (3, 3), (2, 4)):
        out += [(('once', iv, px), False, (), None), (('historically', iv, F.X), False, (), None), (('since', iv, px, py), False, (), None),
                (('not', ('once', iv, ('not', px))), False, (), None), (('eventually', iv, px), True, (), None)]
    # wide windows (implementations that switch to another data structure above some width keep more state than a short window shows)
    for iv in ((0, 4), (0, 5), (2, 7), (0, 8), (1, 9), (4, 4), (8, 8)) + (() if quick else ((0, 15), (3, 19), (16, 16))):
        out += [(('once', iv, F.X), False, (), None), (('historically', iv, px), False, (), None), (('eventually', iv, F.X), True, (), None),
                (('always', iv, px), True, (), None), (('or', ('eventually', iv, px), py), True, (), None)]
    # with sub-specifications
    out.append((('and', ('once', (0, 2), px), ('prev', ('once', (0, 2), px))), False, ('p = once[0,2] (x >= 0);',), 'out = p and (prev p)'))
    out.append((('since', (1, 2), ('historically', (0, 1), px), py), False, ('p = historically[0,1] (x >= 0);',), 'out = p since[1,2] (y <= 1)'))
    out.append((('or', ('rise', px), ('eventually', (0, 1), ('rise', px))), True, ('p = rise(x >= 0);',), 'out = p or eventually[0,1] p'))
    ev = ('eventually', (0, 1), px)
    out.append((('or', ev, ('next', ev)), True, ('p = eventually[0,1] (x >= 0);',), 'out = p or (next p)'))
    out.append((('and', ('always', (0, 1), ('or', ev, py)), ev), True, ('p = eventually[0,1] (x >= 0);', 'q = p or (y <= 1);'), 'out = (always[0,1] q) and p'))
    return out


def ct_cases(tier):
    quick = tier == 'quick'
    fs = c05.formula_set(tier)
    return fs[::15] if quick else fs[::4]


def shards(tier):
    out = []
    dc = dt_cases(tier)
    for i in range(0, len(dc), 2):
        out.append({'dt': [(F.to_json(f), p, list(s), t) for f, p, s, t in dc[i:i + 2]]})
    cc = ct_cases(tier)
    for i in range(0, len(cc), 2):
        out.append({'ct': [(F.to_json(f), p) for f, p in cc[i:i + 2]]})
    ic = ia_cases(tier)
    for i in range(0, len(ic), 2):
        out.append({'dt_ia': [(F.to_json(f), k) for f, k in ic[i:i + 2]]})
    fc = fault_cases(tier)
    for i in range(0, len(fc), 2):
        out.append({'faulty': [F.to_json(f) for f in fc[i:i + 2]]})
    for f in ct_fault_cases():
        out.append({'ct_faulty': [F.to_json(f)]})
    return out


IA_VALUES = ((-1.0, 0.0, 1.0), (0.0, 1.0))
IA_CONFIGS = (('output_robustness', {'x': 'input', 'y': 'output'}), ('input_robustness', {'x': 'output', 'y': 'input'}),
              ('input_vacuity', {'x': 'output', 'y': 'output'}), ('output_robustness', {'x': 'input', 'y': 'input'}))


def ia_cases(tier):
    """monitors under an interface-aware semantics: predicates that contribute +-inf (or 0) drive unbounded operators to absorbing values"""
    GT, LT, px, py = ('pred', '>', F.X, F.C0), ('pred', '<', F.Y, F.C1), F.PX, F.PY
    fs = [('once', None, px), ('historically', None, GT), ('since', None, px, LT), ('and', ('once', None, GT), py), ('or', ('historically', None, py), ('prev', px)),
          ('once', (0, 2), GT), ('historically', (1, 2), px), ('since', (0, 1), GT, py), ('rise', px), ('implies', ('once', None, LT), ('historically', None, px)),
          ('once', None, ('historically', None, px)), ('and', ('once', None, ('pred', '>', ('+', F.X, F.Y), F.C1)), ('once', None, px))]
    if tier == 'quick':
        fs = fs[::2] + fs[1:4:2]
    return [(f, k % len(IA_CONFIGS)) for k, f in enumerate(fs)] + [(f, (k + 1) % len(IA_CONFIGS)) for k, f in enumerate(fs[:6])]


def dt_explore(res, mod, f, pastify, subs, top, tier, faulty=False, ia=None):
    quick = tier == 'quick'
    delay = int(refsem.horizon(f)) if pastify else 0
    if faulty:
        m = FaultyResetModel(f, offline=False)
    elif ia is not None:
        sem, io = IA_CONFIGS[ia]
        m = ResetModel(f, IA_VALUES, build_kw={'semantics': sem, 'io_types': {v: t for v, t in io.items() if v in F.fvars(f)}}, offline=False)
    else:
        m = ResetModel(f, (F.V3, F.V2), text=top, pastify=pastify, delay=delay, subspecs=subs, offline=False)
    probes = m.probes()
    fresh_out = {}
    for q in probes:
        fresh_out[q] = m.run_probe(m.fresh(), q)
    fj = F.to_json(f)

    def on_state(hist, obj):
        first = True
        for q in probes:
            if not first:
                obj = m.fresh()
                for i, e in enumerate(hist):
                    m.apply(obj, hist[:i], e)
            first = False
            res.evaluations += 1
            r = impl.outcome(obj.reset)
            case = {'kind': 'dt', 'formula': fj, 'spec': m.text, 'vars': m.vs, 'pastify': pastify, 'subspecs': list(subs),
                    'history': [list(e) for e in hist], 'probe': [list(e) for e in q]}
            if faulty:
                case['faulty'] = True
            if ia is not None:
                case['ia'] = ia
            if r[0] != 'ok':
                res.violation(mod, case, 'reset() after %d updates raised %s' % (len(hist), r[1]))
                res.outcomes['reset raised'] += 1
                return
            c0 = obj.sampling_violation_counter
            if c0 != 0:
                res.violation(mod, case, 'sampling_violation_counter is %r right after reset()' % (c0,))
                res.outcomes['counter'] += 1
                return
            got = m.run_probe(obj, q)
            if got != fresh_out[q]:
                k = next(i for i, (a, b) in enumerate(zip(got, fresh_out[q])) if a != b)
                res.violation(mod, case, 'after %d updates and reset(), post-reset update %d returned %r (counter %r); a fresh monitor returns %r (counter %r)'
                              % (len(hist), k + 1, got[k][0], got[k][1], fresh_out[q][k][0], fresh_out[q][k][1]))
                res.outcomes['differs from fresh'] += 1
                return
            # a second reset() on the same object (the probe just fed is its pre-reset history)
            # (the replay after the second reset() starts at time-stamp 0 again, as a caller that re-runs a recorded log would: for the constant
            # probes its first call then repeats the sample of the last call before the reset)
            r = impl.outcome(obj.reset)
            got2 = m.run_probe(obj, q, t0=0) if r[0] == 'ok' else None
            if got2 != fresh_out[q]:
                res.violation(mod, dict(case, second_reset=True), 'after a SECOND reset() on the same object the probe returns %r; a fresh monitor returns %r'
                              % (got2 if got2 is None else [g[0] for g in got2], [g[0] for g in fresh_out[q]]))
                res.outcomes['second reset differs'] += 1
                return
            if hist:
                res.nontrivial += 1
            if faulty and hist in m.failed:
                res.flags['obligations_after_a_rejected_update'] += 1
            res.outcomes['as fresh'] += 1

    st = explore.bfs(m, (4 if quick else 5) if faulty else (5 if quick else 7), 400 if quick else 20000, 'none', None, on_state, max_states=60 if quick else 250)
    # long pre-reset histories (behaviour that depends on the number of updates, e.g. buffers compacted in blocks)
    long_hist = [] if faulty else F.long_traces(len(m.vs), 40, F.V3 if len(m.vs) == 1 else F.V2)
    for hist in long_hist[::(60 if quick else 12)]:
        obj = m.fresh()
        ok = True
        for i, e in enumerate(hist):
            if m.apply(obj, hist[:i], e)[0] != 'ok':
                ok = False
                break
        if ok:
            on_state(tuple(hist), obj)
    res.formulas += 1
    res.states += st.states
    res.transitions += st.transitions
    res.traces += st.executions
    res.flags['fixpoint' if st.fixpoint else 'no_fixpoint'] += 1
    res.digest(m.text, st.states)
    return m, st


class CtResetModel(c05.ScheduleModel):
    def check(self, hist, out, obj):
        if out[0] != 'ok':
            return explore.PRUNE
        return None

    def judge(self, obj, out):
        return None


class CtFaultyResetModel(CtResetModel):
    """dense online pre-reset schedules over signals with samples outside the domain of sqrt / division: the batches that contain them are
    rejected by update(); no reference is needed (only reset() is judged) and nothing is pruned"""

    def __init__(self, f, text, vs, signals):
        self.f, self.text, self.vs, self.signals = f, text, vs, signals
        self.n = [len(signals[v]) for v in vs]
        self.pastify = False
        self.failed = set()

    def apply(self, obj, hist, step):
        p = self.pos(hist)
        batches = {v: self.signals[v][p[i]:p[i] + step[i]] for i, v in enumerate(self.vs)}
        out = impl.outcome(impl.ct_update, obj, batches)
        return ('ok', copy.deepcopy(out[1])) if out[0] == 'ok' else out

    def check(self, hist, out, obj):
        if out[0] != 'ok' or hist[:-1] in self.failed:
            self.failed.add(hist)
        return None


def ct_fault_cases():
    px, X, Y = F.PX, F.X, F.Y
    sq = ('pred', '>=', ('sqrt', Y), F.C1)
    dv = ('pred', '>=', ('/', F.C1, Y), F.C1)
    return [('pred', '>=', ('+', ('once', (0, 1), X), ('sqrt', Y)), F.C0), ('and', ('historically', None, px), dv), ('since', None, px, sq),
            ('or', ('once', (1, 2), sq), px), ('pred', '>=', ('+', ('sqrt', Y), ('historically', (0, 1), X)), F.C0), ('since', (0, 1), dv, px)]


FAULT_SIGNALS = (
    {'x': ((0.0, 2.0), (1.0, -1.0), (1.5, 2.0), (3.0, -1.0)), 'y': ((0.0, 4.0), (1.0, -1.0), (2.0, 0.0), (3.0, 4.0))},
    {'x': ((0.0, -1.0), (2.0, 2.0), (3.0, 2.0)), 'y': ((0.0, 0.0), (0.5, 4.0), (3.0, 0.25))},
)
FAULT_PROBES = (
    {'x': ((0.0, 2.0), (1.0, -1.0), (2.5, 2.0), (3.0, -1.0)), 'y': ((0.0, 0.25), (0.5, 4.0), (3.0, 4.0))},
    {'x': ((0.0, -1.0), (0.5, -1.0), (3.0, 2.0)), 'y': ((0.0, 4.0), (2.0, 0.25), (3.0, 0.25))},
)


def ct_fault_explore(res, mod, f, tier):
    vs = ['x', 'y']
    text = 'out = ' + F.pr(f)
    fj = F.to_json(f)
    fresh = {}
    for pi, ps in enumerate(FAULT_PROBES):
        for ch in ('all', 'one'):
            fresh[(pi, ch)] = ct_probe(impl.build('ct_on', text, vs), vs, ps, ch)
    for si, sig in enumerate(FAULT_SIGNALS):
        m = CtFaultyResetModel(f, text, vs, sig)

        def on_state(hist, obj):
            first = True
            for (pi, ch), want in fresh.items():
                if not first:
                    obj = m.fresh()
                    for i, e in enumerate(hist):
                        m.apply(obj, hist[:i], e)
                first = False
                res.evaluations += 1
                case = {'kind': 'ct_faulty', 'formula': fj, 'spec': text, 'vars': vs, 'signal_set': si, 'schedule': [list(s) for s in hist], 'probe': pi, 'chunk': ch}
                r = impl.outcome(obj.reset)
                if r[0] != 'ok':
                    res.violation(mod, case, 'reset() after %d updates (some rejected) raised %s' % (len(hist), r[1]))
                    res.outcomes['reset raised'] += 1
                    return
                got = ct_probe(obj, vs, FAULT_PROBES[pi], ch)
                if got != want:
                    k = next(i for i, (a, b) in enumerate(zip(got, want)) if a != b)
                    res.violation(mod, case, 'after schedule %r (with rejected batches) and reset(), post-reset update %d returned %r; a fresh monitor returns %r'
                                  % ([list(s) for s in hist], k + 1, got[k], want[k]))
                    res.outcomes['differs from fresh'] += 1
                    return
                if hist:
                    res.nontrivial += 1
                if hist in m.failed:
                    res.flags['obligations_after_a_rejected_update'] += 1
                    res.flags['dense_obligations_after_a_rejected_update'] += 1
                res.outcomes['as fresh'] += 1
        st = explore.bfs(m, 64, 3000 if tier == 'quick' else 20000, 'none', None, on_state, max_states=120 if tier == 'quick' else 2000)
        res.states += st.states
        res.transitions += st.transitions
        res.traces += st.executions
        res.digest(text, si, st.states)
    res.formulas += 1
    return st


PROBE_SIGNALS = (
    {'x': ((0.0, 2.0), (1.0, -1.0), (2.5, 2.0), (3.0, -1.0)), 'y': ((0.0, -1.0), (0.5, 2.0), (3.0, 2.0))},
    {'x': ((0.0, -1.0), (0.5, -1.0), (3.0, 2.0)), 'y': ((0.0, 2.0), (2.0, -1.0), (3.0, -1.0))},
)


def ct_probe(obj, vs, sig, chunk):
    outs = []
    n = max(len(sig[v]) for v in vs)
    if chunk == 'all':
        steps = [{v: sig[v] for v in vs}]
    else:
        steps = [{v: sig[v][i:i + 1] for v in vs} for i in range(n)]
    for b in steps:
        o = impl.outcome(impl.ct_update, obj, b)
        outs.append(explore.snapshot(copy.deepcopy(o)))
    return outs


def ct_explore(res, mod, f, pastify, tier):
    vs = sorted(F.fvars(f))
    text = 'out = ' + F.pr(f)
    fj = F.to_json(f)
    sigsets = c05.signal_sets(len(vs), 'quick')[:2 if tier == 'quick' else 6]
    fresh = {}
    for pi, ps in enumerate(PROBE_SIGNALS):
        for ch in ('all', 'one'):
            o = impl.build('ct_on', text, vs, pastify=pastify)
            fresh[(pi, ch)] = ct_probe(o, vs, ps, ch)
    for sig in sigsets:
        sig = {v: sig['x' if (v == 'y' and len(vs) == 1) else v] for v in vs}
        m = CtResetModel(f, text, vs, sig, pastify)

        def on_state(hist, obj):
            first = True
            for (pi, ch), want in fresh.items():
                if not first:
                    obj = m.fresh()
                    for i, e in enumerate(hist):
                        m.apply(obj, hist[:i], e)
                first = False
                res.evaluations += 1
                case = {'kind': 'ct', 'formula': fj, 'spec': text, 'vars': vs, 'pastify': pastify,
                        'signals': {v: [list(p) for p in s] for v, s in sig.items()}, 'schedule': [list(s) for s in hist],
                        'probe': pi, 'chunk': ch}
                r = impl.outcome(obj.reset)
                if r[0] != 'ok':
                    res.violation(mod, case, 'reset() after %d updates raised %s' % (len(hist), r[1]))
                    res.outcomes['reset raised'] += 1
                    return
                got = ct_probe(obj, vs, PROBE_SIGNALS[pi], ch)
                if got != want:
                    k = next(i for i, (a, b) in enumerate(zip(got, want)) if a != b)
                    res.violation(mod, case, 'after schedule %r and reset(), post-reset update %d returned %r; a fresh monitor returns %r'
                                  % ([list(s) for s in hist], k + 1, got[k], want[k]))
                    res.outcomes['differs from fresh'] += 1
                    return
                r = impl.outcome(obj.reset)
                got2 = ct_probe(obj, vs, PROBE_SIGNALS[pi], ch) if r[0] == 'ok' else None
                if got2 != want:
                    res.violation(mod, dict(case, second_reset=True), 'after a SECOND reset() on the same object the probe returns %r; a fresh monitor returns %r' % (got2, want))
                    res.outcomes['second reset differs'] += 1
                    return
                if hist:
                    res.nontrivial += 1
                res.outcomes['as fresh'] += 1
        st = explore.bfs(m, 64, 5000, 'none', None, on_state)
        res.states += st.states
        res.transitions += st.transitions
        res.traces += st.executions
        res.digest(text, st.states)
    res.formulas += 1
    return st


def run_shard(shard, tier, res):
    mod = sys.modules[__name__]
    for fj, pastify, subs, top in shard.get('dt', []):
        f = F.from_json(fj)
        m, st = dt_explore(res, mod, f, pastify, tuple(subs), top, tier)
        res.sample({'spec': m.text, 'subspecs': list(subs), 'pastify': pastify, 'pre_reset_states': st.states, 'probes': len(m.probes())}, 1)
    for fj, k in shard.get('dt_ia', []):
        f = F.from_json(fj)
        m, st = dt_explore(res, mod, f, False, (), None, tier, ia=k)
        res.flags['interface_aware_monitors'] += 1
        res.sample({'spec': m.text, 'semantics': IA_CONFIGS[k][0], 'io': IA_CONFIGS[k][1], 'pre_reset_states': st.states}, 1)
    for fj in shard.get('faulty', []):
        f = F.from_json(fj)
        m, st = dt_explore(res, mod, f, False, (), None, tier, faulty=True)
        res.sample({'spec': m.text, 'pre_reset_states': st.states, 'of_which_after_a_rejected_update': len([h for h in m.failed]), 'probes': len(m.probes())}, 1)
    for fj in shard.get('ct_faulty', []):
        f = F.from_json(fj)
        st = ct_fault_explore(res, mod, f, tier)
        res.sample({'dense_spec': F.pr(f), 'pre_reset_states_with_rejected_batches': st.states}, 1)
    for fj, pastify in shard.get('ct', []):
        f = F.from_json(fj)
        st = ct_explore(res, mod, f, pastify, tier)
        res.sample({'dense_spec': F.pr(f), 'pastify': pastify, 'pre_reset_states': st.states}, 1)


def replay(case):
    f = F.from_json(case['formula'])
    if case['kind'] == 'dt':
        delay = int(refsem.horizon(f)) if case['pastify'] else 0
        if case.get('faulty'):
            m = FaultyResetModel(f, offline=False)
        elif case.get('ia') is not None:
            sem, io = IA_CONFIGS[case['ia']]
            m = ResetModel(f, IA_VALUES, build_kw={'semantics': sem, 'io_types': {v: t for v, t in io.items() if v in F.fvars(f)}}, offline=False)
        else:
            m = ResetModel(f, (F.V3, F.V2), text=case['spec'], variables=case['vars'], pastify=case['pastify'], delay=delay,
                           subspecs=tuple(case.get('subspecs', ())), offline=False)
        q = tuple(tuple(e) for e in case['probe'])
        want = m.run_probe(m.fresh(), q)
        obj = m.fresh()
        hist = tuple(tuple(e) for e in case['history'])
        for i, e in enumerate(hist):
            m.apply(obj, hist[:i], e)
        r = impl.outcome(obj.reset)
        if r[0] != 'ok':
            return ['reset() raised %s' % (r[1],)]
        if obj.sampling_violation_counter != 0:
            return ['sampling_violation_counter is %r right after reset()' % obj.sampling_violation_counter]
        got = m.run_probe(obj, q)
        if got != want:
            return ['post-reset outputs %r differ from a fresh monitor %r' % (got, want)]
        if case.get('second_reset'):
            obj.reset()
            got2 = m.run_probe(obj, q, t0=0)
            return [] if got2 == want else ['after a second reset() the outputs %r differ from a fresh monitor %r' % (got2, want)]
        return []
    vs = case['vars']
    if case['kind'] == 'ct_faulty':
        m = CtFaultyResetModel(f, case['spec'], vs, FAULT_SIGNALS[case['signal_set']])
        want = ct_probe(impl.build('ct_on', case['spec'], vs), vs, FAULT_PROBES[case['probe']], case['chunk'])
        obj = m.fresh()
        hist = tuple(tuple(s) for s in case['schedule'])
        for i, e in enumerate(hist):
            m.apply(obj, hist[:i], e)
        r = impl.outcome(obj.reset)
        if r[0] != 'ok':
            return ['reset() raised %s' % (r[1],)]
        got = ct_probe(obj, vs, FAULT_PROBES[case['probe']], case['chunk'])
        return [] if got == want else ['post-reset outputs %r differ from a fresh monitor %r' % (got, want)]
    sig = {v: [tuple(p) for p in s] for v, s in case['signals'].items()}
    m = CtResetModel(f, case['spec'], vs, sig, case['pastify'])
    want = ct_probe(impl.build('ct_on', case['spec'], vs, pastify=case['pastify']), vs, PROBE_SIGNALS[case['probe']], case['chunk'])
    obj = m.fresh()
    hist = tuple(tuple(s) for s in case['schedule'])
    for i, e in enumerate(hist):
        m.apply(obj, hist[:i], e)
    r = impl.outcome(obj.reset)
    if r[0] != 'ok':
        return ['reset() raised %s' % (r[1],)]
    got = ct_probe(obj, vs, PROBE_SIGNALS[case['probe']], case['chunk'])
    return [] if got == want else ['post-reset outputs %r differ from a fresh monitor %r' % (got, want)]


def finalize(agg, outcomes, flags, tier):
    from ..runner import Broken
    if agg['nontrivial'] < 1000:
        raise Broken('vacuous: only %d (state, probe) obligations after a non-empty history' % agg['nontrivial'])
    if flags.get('obligations_after_a_rejected_update', 0) < 100:
        raise Broken('vacuous: only %d obligations after a history with a rejected update()' % flags.get('obligations_after_a_rejected_update', 0))
    return {'obligations_state_x_probe': agg['evaluations']}
