"""C07 - robustness sign and magnitude are sound w.r.t. Boolean satisfaction (engine E1)."""
import itertools
import sys

from .. import formula as F
from .. import refsem
from .. import dref
from .. import impl
from .. import kinds

ID = 'C07'
LEVEL = 'exploration'
RULE = ('all iff/xor-free formulas (<=2 operators, 3-chains) over predicates "variable vs constant" x all traces up to length 3 over V5={-2..2} x the '
        'four real monitor kinds (online: past formulas, and bounded-future formulas after pastify; dense: the grid step signal). Oracle 1: a '
        'reported value > 0 (< 0) implies Boolean satisfaction (violation) at that position, with an independently written Boolean evaluator. '
        'Oracle 2: for every reported finite r != 0, EVERY trace over V5 whose samples all differ from the original by less than |r| gets the same '
        'Boolean verdict (exhaustive over the finite neighbourhood). Life layer: both oracles on discrete offline objects that were configured and evaluated under another default '
        'unit / sampling period before and then switched (vf/reconf.py). non-trivial = a reported finite non-zero value whose neighbourhood has more than one trace')
ASSUMPTIONS = ['the real-valued perturbation ball of the statement is covered on the integer grid V5 only (stated limit)',
               'Boolean semantics: vf/refsem.sat (discrete), vf/dref._bcells (dense), independent of the robustness evaluators']

OPS_U = ('not', 'prev', 's_prev', 'next', 's_next', 'rise', 'fall', 'once', 'historically', 'eventually', 'always')
OPS_B = ('and', 'or', 'implies', 'since', 'until', 'unless')
PXa = ('pred', '>=', F.X, F.C0)
PYa = ('pred', '<=', F.Y, F.C1)
ATOMS1 = (PXa, ('pred', '<', F.X, F.C1), ('pred', '>', F.X, ('const', 1.0)), ('pred', '==', F.X, F.C0), ('pred', '!==', F.X, F.C1), F.X)


def site(case):
    # the pastified monitor of a past operator over a future operand is the open C03 finding; it also breaks sign soundness
    from . import c03
    return c03.site(case)


def formula_set(tier):
    quick = tier == 'quick'
    I = ((0, 1), (1, 2)) if quick else F.I_QUICK
    U = F.unary_ops(I, ops=[o for o in OPS_U if not (quick and o in ('s_prev', 's_next', 'fall'))])
    B = F.binary_ops(I, ops=[o for o in OPS_B if not (quick and o == 'unless')])
    fs = list(F.F(2, U, B, [(PXa, PYa, F.X)]))
    if quick:
        fs = [f for i, f in enumerate(fs) if F.size(f) < 2 or i % 2 == 0]
    fs += [f for a in ATOMS1 for f in F.F(1, U, [], [(a, a, a)])]
    if not quick:
        Uc = F.unary_ops(((0, 1), (1, 2)), ops=OPS_U)
        fs += list(F.chains(3, Uc, PXa))
    fs += [f for f in F.patterns() if not F.has_op(f, ('iff', 'xor'))]
    out, seen = [], set()
    for f in fs:
        if f not in seen:
            seen.add(f)
            out.append(f)
    return out


WIDE_I = F.I_BIG + ((0, 8), (8, 8), (1, 8), (0, 16), (16, 16), (2, 9))


def wide_set(tier):
    """one temporal operator with a wide window (bounds 4 ... 16) on traces of up to 7 samples over a two-letter alphabet"""
    fs = [(op, I, PXa) for op in ('once', 'historically', 'eventually', 'always') for I in WIDE_I]
    fs += [('since', I, PXa, PYa) for I in WIDE_I[:6]] + [('not', ('once', (0, 8), ('not', PXa))), ('or', ('historically', (4, 4), PXa), PYa)]
    return fs


def shards(tier):
    fs = formula_set(tier)
    per = 10 if tier == 'quick' else 4
    out = [{'formulas': [F.to_json(f) for f in fs[i:i + per]]} for i in range(0, len(fs), per)]
    ws = wide_set(tier)
    out += [{'formulas': [F.to_json(f) for f in ws[i:i + 3]], 'wide': True} for i in range(0, len(ws), 3)]
    out += [{'formulas': [], 'life': i} for i in range(len(life_formulas()))]
    return out


def life_formulas():
    a = PXa
    return [('always', (0, 2), a), ('eventually', (1, 2), a), ('once', (0, 2), a), ('historically', (1, 2), a), ('until', (0, 1), a, ('pred', '<', F.X, F.C1)),
            ('or', ('always', (0, 1), a), ('once', (1, 1), ('pred', '>', F.X, ('const', 1.0)))), ('not', ('eventually', (0, 2), ('pred', '<', F.X, F.C1)))]


def life_case(case, obj=None):
    """sign and magnitude soundness on a discrete offline object with an earlier life (vf/reconf.py): the Boolean verdicts are those of the
    formula with its bounds converted to samples under the configuration in force"""
    from .. import reconf
    f = F.from_json(case['formula'])
    vs = case['vars']
    if obj is None:
        c1, f1, spec = reconf.lived_object('dt_off', f, case['suffix'], vs, case['life'])
    else:
        c1, f1, spec = obj
    w = case['trace']
    n = len(next(iter(w.values())))
    k, out = impl.outcome(impl.dt_evaluate, spec, w, reconf.times(c1, n))
    if k != 'ok':
        return 'evaluate() raised %s' % (out,), 0
    nt = 0
    for pos, (t, r) in enumerate(out):
        if r != r or r == 0:
            continue
        v = refsem.sat(f1, w, n)[pos]
        if (r > 0) != v:
            return 're-configured object (%s; bounds then denote %s): reported value %r at position %d but the specification is %s there' % (
                case['life'], F.pr(f1), r, pos, 'satisfied' if v else 'violated'), nt
        if abs(r) == float('inf'):
            continue
        cnt = 0
        for w2 in neighbours(w, vs, r):
            cnt += 1
            if refsem.sat(f1, w2, n)[pos] != v:
                return ('re-configured object (%s): reported robustness %r at position %d, yet the trace %r (all samples closer than |rho|) has the opposite verdict'
                        % (case['life'], r, pos, w2)), nt
        if cnt > 1:
            nt += 1
    return None, nt


def run_life(shard, tier, res, mod):
    from .. import reconf
    f = life_formulas()[shard['life']]
    fj = F.to_json(f)
    vs = sorted(F.fvars(f))
    res.formulas += 1
    for suffix in ('', 's', 'ms'):
        text = 'out = ' + F.pr(f, bound=reconf.speller(suffix))
        case0 = {'life_layer': True, 'formula': fj, 'vars': vs, 'suffix': suffix, 'spec': text}
        for name, c1, f1, spec in reconf.lived_objects('dt_off', f, suffix, vs, res, mod, case0):
            traces = list(F.traces(3, F.V5, len(vs)))
            if F.has_op(f1, F.BIN_T) and F.max_bound(f1) > 100:
                traces = traces[7::19]
            for t in traces:
                case = dict(case0, life=name, trace=F.trace_dict(t, vs))
                res.evaluations += 1
                msg, nt = life_case(case, (c1, f1, spec))
                if msg:
                    res.violation(mod, case, msg)
                    res.outcomes['unsound'] += 1
                else:
                    res.outcomes['sound'] += 1
                    res.flags['life_cases'] += 1
                    res.nontrivial += nt
                    res.flags['life_nontrivial'] += nt
                res.digest(text, name, t, msg)
    res.sample({'spec': text, 'lives': [l[0] for l in reconf.lives()][:4]}, 1)


def neighbours(w, vs, r):
    """all traces over V5 whose samples differ from w by less than |r|"""
    opts = []
    for v in vs:
        for x in w[v]:
            opts.append([y for y in F.V5 if abs(y - x) < abs(r)])
    n = len(next(iter(w.values())))
    for combo in itertools.product(*opts):
        yield {v: list(combo[i * n:(i + 1) * n]) for i, v in enumerate(vs)}


def dense_ok(f):
    return not F.has_op(f, ('prev', 's_prev', 'next', 's_next', 'rise', 'fall'))


def plans_for(f):
    """(kind, pastify, dense)"""
    out = [('dt_off', False)]
    if F.past_only(f):
        out.append(('dt_on', False))
    elif not F.is_temporal_unbounded_future(f):
        out.append(('dt_on', True))
    if dense_ok(f):
        out.append(('ct_off', False))
        if F.past_only(f):
            out.append(('ct_on', False))
    return out


def reported(kind, pastify, spec_factory, f, w, vs):
    """list of (position, value) the monitor reports for trace w; positions index the discrete trace / the grid"""
    n = len(next(iter(w.values())))
    if kind.startswith('dt'):
        vals = kinds.dt_values(kind, spec_factory(), w)
        if pastify:
            h = int(refsem.horizon(f))
            return [(i - h, vals[i]) for i in range(h, n)] if kind == 'dt_on' else []
        if kind == 'dt_on':
            return [(n - 1, vals[-1])]  # value at step i speaks about the prefix; the full trace is judged at its last position
        return list(enumerate(vals))
    sig = kinds.grid_signal(w)
    out = kinds.ct_samples(kind, spec_factory(), sig)
    if not out:
        return []
    last = out[-1][0]
    return [(k, dref.stepval(out, float(k))) for k in range(n) if k <= last]


def verdict(f, w, pos, dense):
    n = len(next(iter(w.values())))
    if dense:
        return dref.sat_at(f, kinds.grid_signal(w), [float(pos)])[0]
    return refsem.sat(f, w, n)[pos]


def check_case(case, res=None):
    f = F.from_json(case['formula'])
    vs = case['vars']
    w = case['trace']
    kind, pastify = case['kind'], case['pastify']
    text = case['spec']
    factory = lambda: impl.build(kind, text, vs, pastify=pastify)
    k, rep = impl.outcome(reported, kind, pastify, factory, f, w, vs)
    if k != 'ok':
        return 'monitoring raised %s' % (rep,)
    dense = kind.startswith('ct')
    for pos, r in rep:
        if r != r or r == 0:
            continue
        v = verdict(f, w, pos, dense)
        if (r > 0) != v:
            return 'reported value %r at position %d but the specification is %s there' % (r, pos, 'satisfied' if v else 'violated')
        if abs(r) == float('inf') or not case.get('perturb', True):
            continue
        cnt = 0
        for w2 in neighbours(w, vs, r):
            cnt += 1
            if verdict(f, w2, pos, dense) != v:
                return ('reported robustness %r at position %d, yet the trace %r (all samples closer than |rho|) has the opposite verdict'
                        % (r, pos, w2))
        if res is not None and cnt > 1:
            res.nontrivial += 1
    return None


def run_shard(shard, tier, res):
    mod = sys.modules[__name__]
    if 'life' in shard:
        return run_life(shard, tier, res, mod)
    for fj in shard['formulas']:
        f = F.from_json(fj)
        vs = sorted(F.fvars(f))
        text = 'out = ' + F.pr(f)
        res.formulas += 1
        n = 3 if len(vs) == 1 else 2
        values = F.V5
        if shard.get('wide'):
            n, values = ((6 if tier == 'quick' else 8) if len(vs) == 1 else (3 if tier == 'quick' else 4)), (-2.0, 1.0)
        for kind, pastify in plans_for(f):
            for ti, t in enumerate(F.traces(n, values, len(vs))):
                w = F.trace_dict(t, vs)
                # the neighbourhood oracle does not depend on the monitor kind: it runs for the discrete offline monitor and for
                # every other kind on the dense/online readings as well (their Boolean semantics differ for dense time)
                case = {'formula': fj, 'spec': text, 'vars': vs, 'trace': w, 'kind': kind, 'pastify': pastify,
                        'perturb': (kind == 'dt_off' and (tier != 'quick' or ti % 2 == 0)) or ti % (9 if tier == 'quick' else 3) == 0}
                res.evaluations += 1
                msg = check_case(case, res)
                if msg:
                    res.violation(mod, case, msg)
                    res.outcomes['unsound'] += 1
                else:
                    res.outcomes['sound'] += 1
                if ti == 30 and kind == 'dt_off':
                    res.sample(case, 1)
                res.digest(text, kind, ti, msg)


def replay(case):
    if case.get('life_layer'):
        m, _ = life_case(case)
        return [m] if m else []
    m = check_case(case)
    return [m] if m else []


def finalize(agg, outcomes, flags, tier):
    from ..runner import Broken
    if agg['nontrivial'] < 1000:
        raise Broken('vacuous: only %d values with a non-singleton neighbourhood' % agg['nontrivial'])
    if flags.get('life_nontrivial', 0) < 100:
        raise Broken('vacuous: only %d such values on re-configured objects' % flags.get('life_nontrivial', 0))
    return {'cases_on_reconfigured_objects': flags.get('life_cases', 0)}
