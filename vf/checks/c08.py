"""C08 - temporal bounds denote physical durations whatever the unit notation (engine E1, configuration lattice)."""
import itertools
import sys
from fractions import Fraction as Fr
from decimal import Decimal

from .. import formula as F
from .. import refsem
from .. import dref
from .. import impl
from .. import kinds

ID = 'C08'
LEVEL = 'exploration'
RULE = ('bounded-operator formulas (one operator and 2-chains) x ALL equivalent spellings of their bounds: unit suffix in {none, s, ms, us, ns} on begin and '
        'on end independently (a missing suffix takes the other bound\'s unit, else the default unit), default unit spec.unit in {s, ms, us}, sampling period '
        'in {1 s, 500 ms, 2 s, 250000 us; 100 ms, 0.1 s (a float), 300 us, 0.5 ms - the last four not exactly representable in binary or given as floats} with the bounds scaled to it and the time-stamps i*period rounded to floats; float-period family: every period k/1000 s written as a float (k = 1..120, thorough 1..1000) must behave as k ms; x discrete offline / online / pastified online (every fourth spelling also on the combined class StlDiscreteTimeSpecification, offline and pastified online) x all traces up to length n; every '
        'spelling must return the reference rho of the sample-count bounds (hence all spellings agree); bounds that are NOT a multiple of the period '
        '(every spelling again) must raise RTAMTException at parse() or at the first evaluation and nothing else; dense time: default unit x suffixes '
        'with time-stamps rescaled consistently, compared with the dense reference; life layer: discrete offline objects configured and used under one of 5 configurations and then '
        'switched to another with spec.unit / set_sampling_period (all ordered pairs, both setter orders): reference on the new sample counts, equality with a fresh object that spells the durations with explicit units, '
        'and rejection when a bound stops being a multiple of the period; non-trivial = spelling that is not the plain default-unit one and whose reference output is not constant +-inf')
ASSUMPTIONS = ['literals stay finite decimals; values V3/{-1,2}; the reference works in sample counts (discrete) / seconds (dense)']

U = {'s': 10 ** 9, 'ms': 10 ** 6, 'us': 10 ** 3, 'ns': 1}
PERIODS = ((1, 's'), (500, 'ms'), (2, 's'), (250000, 'us'),
           # periods that are not exactly representable in binary / are given as floats / in a small unit (second group, index >= N_DYADIC)
           (100, 'ms'), (0.1, 's'), (300, 'us'), (0.5, 'ms'))
N_DYADIC = 4


def pns(p, pu):
    """the period in ns, exactly (a float period is read through its shortest decimal spelling, as the user wrote it)"""
    x = Fr(str(p)) * U[pu]
    assert x.denominator == 1, (p, pu)
    return int(x)
DEFAULTS = ('s', 'ms', 'us')
SUFFIX = ('', 's', 'ms', 'us', 'ns')


def lit(x):
    """plain decimal spelling of a non-negative Fraction with finite decimal expansion"""
    x = Fr(x)
    if x.denominator == 1:
        return str(x.numerator)
    d = Decimal(x.numerator) / Decimal(x.denominator)
    s = format(d, 'f')
    assert Fr(Decimal(s)) == x, (x, s)
    return s


def spellings(a_ns, b_ns, du):
    """all [begin,end] texts denoting the durations a_ns, b_ns (in ns) when the default unit is du"""
    out = []
    for sb in SUFFIX:
        for se in SUFFIX:
            ub = sb or se or du
            ue = se or sb or du
            out.append(('[%s%s,%s%s]' % (lit(Fr(a_ns, U[ub])), sb, lit(Fr(b_ns, U[ue])), se), sb, se))
    return out


def site(case):
    """open finding: after pastify() a future operator's bounds only survive as their difference (once/historically[0, b-a]) and as delays of
    siblings; a non-multiple [a,b] whose width b-a IS a multiple of the period is therefore no longer rejected"""
    if case.get('mode') == 'dt' and case.get('pastify') and not period_is_unit(case):
        try:
            if F.has_op(F.from_json(case['formula']), ('next', 's_next')):
                return 'C08-pastify-next-nonunit-period'
        except Exception:
            pass
    if case.get('mode') == 'reject' and case.get('pastify') and case.get('op') in ('eventually', 'always'):
        a, b = [Fr(x) for x in case['bounds_in_periods']]
        if (b - a).denominator == 1 and b.denominator != 1:
            return 'C08-pastify-nonmultiple-width-ok'
    return None


def period_is_unit(case):
    p, pu = case['period']
    return pns(p, pu) == U[case['unit']]


def base_formulas(tier):
    px, py = F.PX, F.PY
    I = F.I_QUICK if tier == 'quick' else F.I_FULL
    fs = []
    for iv in I:
        fs += [('once', iv, px), ('historically', iv, F.X), ('eventually', iv, px), ('always', iv, F.X), ('since', iv, px, py),
               ('until', iv, px, py), ('unless', iv, px, py)]
    fs += [('once', (1, 2), ('historically', (0, 1), F.X)), ('eventually', (0, 1), ('historically', (1, 2), px)),
           ('and', ('eventually', (1, 1), px), ('once', (0, 2), py)), ('always', (0, 2), ('eventually', (1, 2), F.X)),
           ('and', ('next', px), py), ('or', ('next', ('eventually', (0, 1), px)), ('once', (0, 1), py)),
           # a past operand that pastify() has to delay because its sibling looks into the future
           ('or', ('historically', (1, 2), px), ('always', (0, 2), py)), ('implies', ('eventually', (0, 2), px), ('since', (0, 1), px, py)),
           ('and', ('once', (1, 2), px), ('next', py))]
    return fs


def shards(tier):
    out = []
    fs = base_formulas(tier)
    for fi in range(len(fs)):
        for pi in range(len(PERIODS)):
            if pi >= N_DYADIC and tier == 'quick' and (fi + pi) % 2:
                continue        # quick tier: every formula meets two of the four decimal periods
            out.append({'mode': 'dt', 'fi': fi, 'pi': pi})
    for fi in range(len(fs)):
        if not F.has_op(fs[fi], ('prev', 's_prev', 'next', 's_next', 'rise', 'fall')):
            out.append({'mode': 'ct', 'fi': fi})
    for pi in range(len(PERIODS)):
        out.append({'mode': 'reject', 'pi': pi})
    for i in range(len(collision_cases())):
        out.append({'mode': 'collide', 'i': i})
    kmax = 120 if tier == 'quick' else 1000
    for k0 in range(1, kmax + 1, 20):
        out.append({'mode': 'fper', 'ks': list(range(k0, min(k0 + 20, kmax + 1)))})
    for i in range(len(life_formulas())):
        out.append({'mode': 'life', 'life': i})
    return out


def collision_cases():
    """(text, formula in samples): two timed nodes over the SAME operand whose bounds have the same digits but different units (period 1 s) -
    they denote different durations and must not be confused anywhere (printed names key the online operations)"""
    X, Y, px = F.X, F.Y, F.PX
    out = []
    for op in ('once', 'historically'):
        for neg in (False, True):
            for (d1, u1, k1), (d2, u2, k2) in ((('1000', 'ms', 1), ('1000', 's', 1000)), (('2', 's', 2), ('2', 'ms', None)), (('3000', 'ms', 3), ('3000', 'us', None))):
                for where in ('end', 'both'):
                    if k1 is None or k2 is None:
                        continue
                    b1 = '[0,%s%s]' % (d1, u1) if where == 'end' else '[0%s,%s%s]' % (u1, d1, u1)
                    b2 = '[0,%s%s]' % (d2, u2) if where == 'end' else '[0%s,%s%s]' % (u2, d2, u2)
                    a = '(%s%s x)' % (op, b1)
                    b = '(%s%s x)' % (op, b2)
                    con = 'and' if op == 'once' else 'or'     # the connective under which the narrower window decides
                    text = 'out = %s and (not %s)' % (a, b) if neg else 'out = %s %s %s' % (b, con, a)
                    fa, fb = (op, (0, k1), X), (op, (0, k2), X)
                    f = ('and', fa, ('not', fb)) if neg else (con, fb, fa)
                    out.append((text, f))
    out.append(('out = (x since[0,1000ms] y) or ((x since[0,1000s] y) and (x >= 0))',
                ('or', ('since', (0, 1), X, Y), ('and', ('since', (0, 1000), X, Y), px))))
    out.append(('out = (eventually[0,1000ms] x) and (not (eventually[0,1000s] x))',
                ('and', ('eventually', (0, 1), X), ('not', ('eventually', (0, 1000), X)))))
    return out


def run_collide(shard, tier, res, mod):
    text, f = collision_cases()[shard['i']]
    vs = sorted(F.fvars(f))
    n = 4 if len(vs) == 1 else 3
    res.formulas += 1
    plans = [('dt_off', False)] + ([('dt_on', False)] if F.past_only(f) else [])
    for kind, pastify in plans:
        for t in F.traces(n, F.V3 if len(vs) == 1 else F.V2, len(vs)):
            w = F.trace_dict(t, vs)
            res.evaluations += 1
            case = {'mode': 'collide', 'formula': F.to_json(f), 'spec': text, 'vars': vs, 'unit': 's', 'period': [1, 's'], 'kind': kind,
                    'pastify': pastify, 'trace': w}
            msgs = replay(case)
            if msgs:
                res.violation(mod, case, msgs[0])
                res.outcomes['%s mismatch' % kind] += 1
            else:
                res.outcomes['agree'] += 1
                res.nontrivial += 1
            res.digest(text, kind, t, bool(msgs))
    res.sample({'same_digits_different_units': text}, 1)


def run_fper(shard, tier, res, mod):
    """the sampling period given as a FLOAT number of seconds, k/1000 for every k of the shard (0.001, 0.002, ... - most of them not
    representable in binary): the monitor must behave exactly as with the period k ms"""
    X, px = F.X, F.PX
    fs = [('once', (0, 2), X), ('and', ('eventually', (1, 1), px), ('historically', (1, 2), X))]
    traces = [F.trace_dict(t, ['x']) for t in F.traces(4, F.V3, 1)][::5]
    for k in shard['ks']:
        p = k / 1000.0
        period_ns = k * U['ms']
        for f in fs:
            res.formulas += 1
            for choice in ([0], [6 + 2], [2 * 5 + 2]):     # unit-less decimal seconds; begin in s, end in ms; both in ms
                text = spell_formula(f, period_ns, 's', choice * 3)
                for kind, pastify in (('dt_off', False), ('dt_on', True)):
                    for w in traces:
                        case = {'mode': 'dt', 'formula': F.to_json(f), 'spec': text, 'vars': ['x'], 'unit': 's', 'period': [p, 's'], 'kind': kind,
                                'pastify': pastify, 'trace': w}
                        res.evaluations += 1
                        try:
                            msgs = replay(case)
                        except Exception as e:
                            if not impl_frame(e):
                                raise
                            msgs = ['parse()/pastify() raised %s: %s' % (type(e).__name__, str(e)[:150])]
                        if msgs:
                            res.violation(mod, case, 'float period %r s: %s' % (p, msgs[0]))
                            res.outcomes['float period differs'] += 1
                        else:
                            res.outcomes['agree'] += 1
                            res.flags['float_period_cases'] += 1
                        res.digest(text, k, kind, bool(msgs))
    res.sample({'float_period_s': p, 'spec': text}, 1)


def impl_frame(e):
    return isinstance(e, impl.RTAMTException)


def spell_formula(f, period_ns, du, choice):
    """text of f with every interval spelled by choice(index) -> (sb, se) picked from spellings()"""
    idx = [0]

    def bound(I):
        sp = spellings(int(I[0] * period_ns), int(I[1] * period_ns), du)
        k = choice[idx[0] % len(choice)]
        idx[0] += 1
        return sp[k][0]
    return 'out = ' + F.pr(f, bound)


def run_dt(shard, tier, res, mod):
    f = base_formulas(tier)[shard['fi']]
    p, pu = PERIODS[shard['pi']]
    period_ns = pns(p, pu)
    vs = sorted(F.fvars(f))
    n = 4 if len(vs) == 1 else 3
    if tier == 'quick':
        n -= 1 if len(vs) == 1 else 0
    traces = [F.trace_dict(t, vs) for t in F.traces(n, F.V3 if len(vs) == 1 else F.V2, len(vs))]
    if tier == 'quick' and len(vs) > 1:
        traces = traces[::2] + traces[-1:]
    refs = [refsem.ev(f, w, len(next(iter(w.values())))) for w in traces]
    h = int(refsem.horizon(f))
    nsp = len(SUFFIX) ** 2
    nint = sum(1 for g in F.subforms(f) if F.interval(g) is not None)
    res.formulas += 1
    for du in DEFAULTS:
        # every spelling of the first interval, the other intervals cycle through the spellings as well
        for k in range(nsp):
            choice = [k] + [(k * 7 + 3 * j) % nsp for j in range(1, nint)]
            text = spell_formula(f, period_ns, du, choice)
            plans = [('dt_off', False, False)]
            if F.past_only(f):
                plans.append(('dt_on', False, False))
            plans.append(('dt_on', True, False))
            if k % 4 == 1:
                # the combined class rtamt.StlDiscreteTimeSpecification (evaluate() and update() on one class, two interpreters behind one set of setters)
                plans += [('dt_off', False, True), ('dt_on', True, True)]
            for kind, pastify, combined in plans:
                case0 = {'mode': 'dt', 'formula': F.to_json(f), 'spec': text, 'vars': vs, 'unit': du, 'period': [p, pu], 'kind': kind, 'pastify': pastify}
                if combined:
                    case0['combined'] = True
                    res.flags['combined_class_specs'] += 1
                try:
                    spec = impl.build(kind, text, vs, unit=du, period=(p, pu), pastify=pastify, combined=combined)
                except Exception as e:
                    res.violation(mod, dict(case0, trace=None), 'parse()/pastify() raised %s: %s' % (type(e).__name__, str(e)[:150]))
                    res.outcomes['parse raised'] += 1
                    continue
                for w, ref in zip(traces, refs):
                    res.evaluations += 1
                    nn = len(ref)
                    if kind == 'dt_on':
                        spec = impl.build(kind, text, vs, unit=du, period=(p, pu), pastify=pastify, combined=combined)
                    times = [float(Fr(i * period_ns, U[du])) for i in range(nn)]
                    kk, vals = impl.outcome(kinds.dt_values, kind, spec, w, times)
                    msg = None
                    if kk != 'ok':
                        msg = 'monitoring raised %s' % (vals,)
                    elif kind == 'dt_off':
                        if not refsem.same_list(vals, ref):
                            msg = 'offline result %r, the sample-count reference is %r' % (vals, ref)
                    else:
                        hh = h if pastify else 0
                        for i in range(hh, nn):
                            wi = {v: s[:i + 1] for v, s in w.items()}
                            r = refsem.ev(f, wi, i + 1)[i - hh]
                            if not refsem.same(vals[i], r):
                                msg = 'update %d returned %r, the sample-count reference is %r' % (i + 1, vals[i], r)
                                break
                    if msg:
                        res.violation(mod, dict(case0, trace=w), msg)
                        res.outcomes['%s mismatch' % kind] += 1
                    else:
                        res.outcomes['agree'] += 1
                        if k != 0 and not all(x in (refsem.INF, -refsem.INF) for x in ref):
                            res.nontrivial += 1
                    res.digest(text, du, kind, pastify, combined, msg)
    res.sample({'formula_in_samples': F.pr(f), 'period': [p, pu], 'default_unit': du, 'one_spelling': text}, 1)


def run_reject(shard, tier, res, mod):
    """bounds that are not an integer multiple of the sampling period"""
    p, pu = PERIODS[shard['pi']]
    period_ns = pns(p, pu)
    vs = ['x']
    w = {'x': [-1.0, 2.0, 0.0]}
    for op in ('once', 'historically', 'eventually', 'always'):
        for (a, b) in ((Fr(1, 2), 1), (0, Fr(3, 2)), (Fr(1, 2), Fr(3, 2)), (Fr(1, 4), 2)):
            for du in DEFAULTS:
                for text_b, sb, se in spellings(int(a * period_ns), int(b * period_ns), du):
                    text = 'out = %s%s x' % (op, text_b)
                    for kind, pastify in (('dt_off', False), ('dt_on', False), ('dt_on', True)):
                        if kind == 'dt_on' and not pastify and op in ('eventually', 'always'):
                            continue
                        res.evaluations += 1
                        case = {'mode': 'reject', 'spec': text, 'vars': vs, 'unit': du, 'period': [p, pu], 'kind': kind, 'pastify': pastify,
                                'op': op, 'bounds_in_periods': [str(Fr(a)), str(Fr(b))]}
                        msg = reject_case(case)
                        if msg:
                            res.violation(mod, case, msg)
                            res.outcomes['not rejected cleanly'] += 1
                        else:
                            res.outcomes['rejected'] += 1
                            res.nontrivial += 1
                        res.digest(text, du, kind, pastify, msg)
    res.sample({'non_multiple_spec': text, 'period': [p, pu], 'default_unit': du}, 1)


def reject_case(case):
    p, pu = case['period']
    w = {'x': [-1.0, 2.0, 0.0]}
    k, spec = impl.outcome(impl.build, case['kind'], case['spec'], case['vars'], unit=case['unit'], period=(p, pu), pastify=case['pastify'])
    if k == 'rtamt':
        return None
    if k == 'exc':
        return 'parse()/pastify() raised %s instead of RTAMTException' % (spec,)
    if case['kind'] == 'dt_off':
        k, v = impl.outcome(impl.dt_evaluate, spec, w, [0, 1, 2])
    else:
        k, v = impl.outcome(impl.dt_update, spec, 0, {'x': -1.0})
    if k == 'rtamt':
        return None
    if k == 'exc':
        return 'first evaluation raised %s instead of RTAMTException' % (v,)
    return 'a bound that is not a multiple of the sampling period was accepted and produced %r' % (v,)


def run_ct(shard, tier, res, mod):
    f = base_formulas(tier)[shard['fi']]
    if f[0] == 'unless' and False:
        return
    vs = sorted(F.fvars(f))
    # durations: interval entries are seconds on the half grid; time-stamps are rescaled to the default unit
    sx = dref.signals_L(2, F.V2, 0.0, max_interior=1)
    sigs = [{'x': s} for s in sx] if len(vs) == 1 else [{'x': a, 'y': b} for a in sx[::3] for b in sx[1::4]]
    if tier == 'quick':
        sigs = sigs[::2]
    nsp = len(SUFFIX) ** 2
    nint = sum(1 for g in F.subforms(f) if F.interval(g) is not None)
    res.formulas += 1
    for du in DEFAULTS:
        scale = Fr(U['s'], U[du])     # default units per second
        for k in range(nsp):
            choice = [k] + [(k * 7 + 3 * j) % nsp for j in range(1, nint)]
            text = spell_formula(f, U['s'], du, choice)
            plans = [('ct_off', False)] + ([('ct_on', False)] if F.past_only(f) else [])
            for kind, pastify in plans:
                case0 = {'mode': 'ct', 'formula': F.to_json(f), 'spec': text, 'vars': vs, 'unit': du, 'kind': kind}
                try:
                    impl.build(kind, text, vs, unit=du)
                except Exception as e:
                    res.violation(mod, dict(case0, signals=None), 'parse() raised %s: %s' % (type(e).__name__, str(e)[:150]))
                    continue
                for si, sig in enumerate(sigs):
                    sig = {v: sig[v if v in sig else 'x'] for v in vs}
                    res.evaluations += 1
                    case = dict(case0, signals={v: [list(q) for q in s] for v, s in sig.items()})
                    msg = ct_case(case, f)
                    if msg:
                        res.violation(mod, case, msg)
                        res.outcomes['%s mismatch' % kind] += 1
                    else:
                        res.outcomes['agree'] += 1
                        if k != 0:
                            res.nontrivial += 1
                    res.digest(text, du, kind, si, msg)
    res.sample({'dense_formula_in_seconds': F.pr(f), 'default_unit': du, 'one_spelling': text}, 1)


def ct_case(case, f=None):
    f = f or F.from_json(case['formula'])
    du = case['unit']
    scale = float(Fr(U['s'], U[du]))
    sig = {v: [tuple(q) for q in s] for v, s in case['signals'].items()}
    scaled = {v: [(t * scale, x) for t, x in s] for v, s in sig.items()}
    spec = impl.build(case['kind'], case['spec'], case['vars'], unit=du)
    k, out = impl.outcome(kinds.ct_samples, case['kind'], spec, scaled)
    if k != 'ok':
        return 'monitoring raised %s' % (out,)
    if not out:
        return 'empty result'
    tend = max(s[-1][0] for s in sig.values())
    if case['kind'] == 'ct_on':
        tend = min(tend, out[-1][0] / scale)
    times = dref.query_times(0.0, tend)
    ref = dref.evaluate(f, sig, times, selfcheck=False)
    for t, r in zip(times, ref):
        v = dref.stepval(out, t * scale)
        if not refsem.same(v, r):
            return 'dense value at t=%r s (time-stamp %r %s) is %r, reference is %r' % (t, t * scale, du, v, r)
    return None


def life_formulas():
    px, X = F.PX, F.X
    return [('eventually', (0, 2), X), ('always', (1, 2), px), ('once', (0, 2), px), ('historically', (1, 2), X), ('until', (0, 1), px, ('pred', '<=', X, F.C1)),
            ('and', ('eventually', (0, 1), px), ('once', (1, 2), X))]


def life_case(case, obj=None):
    """a discrete offline object that was configured and used under c0 and then switched to c1 with the public setters: its bounds denote the
    durations they denote under c1 - the result is the reference on the sample counts of c1 and equals that of a FRESH object on which the
    same durations are written with explicit units; if some bound is not a multiple of the period of c1 the evaluation must be rejected"""
    from .. import reconf
    f = F.from_json(case['formula'])
    vs = case['vars']
    c1, f1, spec = obj if obj is not None else reconf.lived_object('dt_off', f, case['suffix'], vs, case['life'])
    w = case['trace']
    n = len(next(iter(w.values())))
    k, out = impl.outcome(impl.dt_evaluate, spec, w, reconf.times(c1, n))
    if f1 is None:
        if k == 'rtamt':
            return None
        return ('re-configured object (%s): some bound is not a multiple of the sampling period now, but evaluate() %s' %
                (case['life'], ('returned %r' % ([q[1] for q in out],)) if k == 'ok' else 'raised %s instead of RTAMTException' % (out,)))
    if k != 'ok':
        return 're-configured object (%s): evaluate() raised %s' % (case['life'], out)
    vals = [q[1] for q in out]
    ref = refsem.ev(f1, w, n)
    if not refsem.same_list(vals, ref):
        return 're-configured object (%s): bounds now denote %s, evaluate() returns %r, reference %r' % (case['life'], F.pr(f1), vals, ref)
    unit = case['suffix'] or reconf.CONFIGS[c1][0]
    fresh = reconf.build('dt_off', 'out = ' + F.pr(f, bound=reconf.speller(unit)), vs, c1)
    k2, out2 = impl.outcome(impl.dt_evaluate, fresh, w, reconf.times(c1, n))
    if k2 != 'ok' or not refsem.same_list([q[1] for q in out2], vals):
        return 're-configured object (%s) returns %r, a fresh object with the same durations written in %s returns %r' % (case['life'], vals, unit, out2)
    return None


def run_life(shard, tier, res, mod):
    from .. import reconf
    f = life_formulas()[shard['life']]
    fj = F.to_json(f)
    vs = sorted(F.fvars(f))
    res.formulas += 1
    for suffix in ('', 's', 'ms'):
        text = 'out = ' + F.pr(f, bound=reconf.speller(suffix))
        case0 = {'mode': 'life', 'formula': fj, 'vars': vs, 'suffix': suffix, 'spec': text}
        for name, c1, f1, spec in reconf.lived_objects('dt_off', f, suffix, vs, res, mod, case0, configs='ABCDE', rejecting=True):
            traces = list(F.traces(4 if tier == 'quick' else 5, F.V2, len(vs)))
            if f1 is None:
                traces = traces[::5]
            elif F.has_op(f1, F.BIN_T) and F.max_bound(f1) > 100:
                traces = traces[3::7]
            for t in traces:
                case = dict(case0, life=name, trace=F.trace_dict(t, vs))
                res.evaluations += 1
                msg = life_case(case, (c1, f1, spec))
                if msg:
                    res.violation(mod, case, msg)
                    res.outcomes['re-configured object differs'] += 1
                else:
                    res.outcomes['rejected' if f1 is None else 'agree'] += 1
                    res.flags['life_rejected' if f1 is None else 'life_cases'] += 1
                    if f1 is not None:
                        res.nontrivial += 1
                res.digest(text, name, t, msg)
    res.sample({'spec': text, 'lives': [l[0] for l in reconf.lives('ABCDE')][:4]}, 1)


def run_shard(shard, tier, res):
    mod = sys.modules[__name__]
    if shard['mode'] == 'life':
        return run_life(shard, tier, res, mod)
    {'dt': run_dt, 'ct': run_ct, 'reject': run_reject, 'collide': run_collide, 'fper': run_fper}[shard['mode']](shard, tier, res, mod)


def replay(case):
    if case['mode'] == 'life':
        m = life_case(case)
        return [m] if m else []
    if case['mode'] == 'reject':
        m = reject_case(case)
        return [m] if m else []
    if case['mode'] == 'ct':
        m = ct_case(case)
        return [m] if m else []
    f = F.from_json(case['formula'])
    p, pu = case['period']
    w = case['trace']
    spec = impl.build(case['kind'], case['spec'], case['vars'], unit=case['unit'], period=(p, pu), pastify=case['pastify'], combined=case.get('combined', False))
    nn = len(next(iter(w.values())))
    times = [float(Fr(i * pns(p, pu), U[case['unit']])) for i in range(nn)]
    k, vals = impl.outcome(kinds.dt_values, case['kind'], spec, w, times)
    if k != 'ok':
        return ['monitoring raised %s' % (vals,)]
    hh = int(refsem.horizon(f)) if case['pastify'] else 0
    if case['kind'] == 'dt_off':
        ref = refsem.ev(f, w, nn)
        return [] if refsem.same_list(vals, ref) else ['offline %r vs reference %r' % (vals, ref)]
    for i in range(hh, nn):
        wi = {v: s[:i + 1] for v, s in w.items()}
        r = refsem.ev(f, wi, i + 1)[i - hh]
        if not refsem.same(vals[i], r):
            return ['update %d returned %r, reference %r' % (i + 1, vals[i], r)]
    return []


def finalize(agg, outcomes, flags, tier):
    from ..runner import Broken
    if agg['nontrivial'] < 1000:
        raise Broken('vacuous: only %d non-default spellings checked' % agg['nontrivial'])
    if not outcomes.get('rejected'):
        raise Broken('no non-multiple bound was rejected')
    if flags.get('life_cases', 0) < 500 or flags.get('life_rejected', 0) < 50:
        raise Broken('vacuous life layer: %r agreeing cases, %r rejections' % (flags.get('life_cases'), flags.get('life_rejected')))
    return {'cases_on_reconfigured_objects': flags.get('life_cases', 0), 'rejections_on_reconfigured_objects': flags.get('life_rejected', 0)}
