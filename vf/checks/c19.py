"""C19 - dense-time and discrete-time interpretations agree on sampled step signals (engine E1)."""
import sys

from .. import formula as F
from .. import refsem
from .. import dref
from .. import impl
from .. import kinds

ID = 'C19'
LEVEL = 'exploration'
RULE = ('all formulas of the stated fragment (arithmetic, comparisons, Boolean operators, once/historically bounded or not, bounded eventually/always; '
        '<=2 operators, 3-chains) x all traces up to length n read both as a discrete trace and as a step signal sampled on the grid; sampling period '
        '1 s and 500 ms with bounds that are multiples of it (the 500 ms configuration also on the combined classes StlDiscreteTimeSpecification / StlDenseTimeSpecification); deep layers: bounds up to 7 over a two-letter alphabet (n=9/11) and single wide operators over three value levels (n=8/10); the real dense offline result read at k*period must equal the real discrete offline '
        'result at sample k for every k with k + horizon < n; life layer: the same comparison on a discrete and a dense object that were both configured and evaluated under another default unit '
        '(and sampling period) before and then switched with spec.unit / set_sampling_period (vf/reconf.py; bounds unit-less and with s / ms); non-trivial = the reference output is not constant +-inf and the top operator mattered')
ASSUMPTIONS = ['both sides are the real implementation; the reference is only used for the horizon and the non-triviality count']

OPS_U = ('not', 'once', 'historically', 'eventually', 'always')
OPS_B = ('and', 'or', 'implies', 'iff', 'xor')


def formula_set(tier):
    quick = tier == 'quick'
    I = F.I_QUICK if quick else F.I_FULL
    U = [u for u in F.unary_ops(I, ops=OPS_U) if not (u[0] in ('eventually', 'always') and u[1] is None)]
    B = F.binary_ops(I, ops=OPS_B, unless=False)
    leaves = [(F.PX, F.PY, F.X)] if quick else [(F.PX, F.PY, F.X), (F.ATOMS[2], F.ATOMS[5], F.PX), (F.X, F.ATOMS[3], F.PY)]
    fs = list(F.F(2, U, B, leaves))
    Uc = [u for u in F.unary_ops(((0, 1), (1, 2)), ops=OPS_U) if not (u[0] in ('eventually', 'always') and u[1] is None)]
    fs += list(F.chains(3, Uc, F.PX))
    for a in F.ATOMS:
        fs += [a, ('once', (1, 2), a), ('always', (0, 1), a)]
    out, seen = [], set()
    for f in fs:
        if f not in seen:
            seen.add(f)
            out.append(f)
    return out


def shards(tier):
    fs = formula_set(tier)
    per = 12 if tier == 'quick' else 5
    out = [{'formulas': [F.to_json(f) for f in fs[i:i + per]]} for i in range(0, len(fs), per)]
    deep = [f for f in F.deep_formulas(OPS_U, (), two_var=False) if not F.has_op(f, ('prev', 'next', 'rise'))]
    deep = deep[::3] if tier == 'quick' else deep
    out += [{'formulas': [F.to_json(f) for f in deep[i:i + 3]], 'deep': True} for i in range(0, len(deep), 3)]
    # one wide operator over three value levels (orderings among the samples before / inside / after the window need three levels)
    d3 = [(op, I, F.X) for op in ('once', 'historically', 'eventually', 'always') for I in ((2, 6), (3, 7), (2, 5), (0, 4))]
    d3 += [('always', (2, 6), ('eventually', (1, 2), F.X)), ('eventually', (3, 7), ('not', F.X)), ('or', ('eventually', (2, 6), F.X), ('once', (2, 6), F.X))]
    out += [{'formulas': [F.to_json(f)], 'deep3': True} for f in d3]
    out += [{'formulas': [], 'life': i} for i in range(len(life_formulas()))]
    return out


def life_formulas():
    px, X = F.PX, F.X
    return [('once', (0, 2), px), ('historically', (1, 2), X), ('eventually', (0, 2), X), ('always', (1, 2), px),
            ('and', ('eventually', (0, 1), px), ('once', (1, 2), X)), ('always', (0, 1), ('eventually', (0, 1), X))]


def dense_lived(text, vs, c0, c1):
    """a dense offline object configured with the default unit of c0, evaluated once, then switched to the default unit of c1"""
    from .. import reconf
    u0, u1 = reconf.CONFIGS[c0][0], reconf.CONFIGS[c1][0]
    spec = impl.build('ct_off', text, vs, unit=u0)
    q0 = float(reconf.period_in_default_unit(c0))
    impl.outcome(impl.ct_evaluate, spec, {v: [(0.0, 2.0), (q0, -1.0), (2 * q0, 2.0)] for v in vs})
    if u1 != u0:
        spec.unit = u1
    return spec


def life_case(case, objs=None):
    from .. import reconf
    f = F.from_json(case['formula'])
    vs = case['vars']
    if objs is None:
        c1, f1, ds = reconf.lived_object('dt_off', f, case['suffix'], vs, case['life'])
        name, c0, c1, steps = [l for l in reconf.lives() if l[0] == case['life']][0]
        cs = dense_lived(case['spec'], vs, c0, c1)
    else:
        c1, f1, ds, cs = objs
    w = case['trace']
    n = len(next(iter(w.values())))
    h = refsem.horizon(f1)
    q = float(reconf.period_in_default_unit(c1))
    k1, dv = impl.outcome(kinds.dt_values, 'dt_off', ds, w, reconf.times(c1, n))
    k2, cv = impl.outcome(impl.ct_evaluate, cs, kinds.grid_signal(w, q))
    if k1 != 'ok' or k2 != 'ok':
        return 'evaluate() raised %s' % (dv if k1 != 'ok' else cv,)
    for k in range(n):
        if k + h < n:
            c = dref.stepval(cv, k * q)
            if not refsem.same(c, dv[k]):
                return 're-configured objects (%s): dense value at t=%r is %r, discrete value at sample %d is %r' % (case['life'], k * q, c, k, dv[k])
    return None


def run_life(shard, tier, res, mod):
    from .. import reconf
    f = life_formulas()[shard['life']]
    fj = F.to_json(f)
    vs = sorted(F.fvars(f))
    res.formulas += 1
    n = 5 if tier == 'quick' else 6
    for suffix in ('', 's', 'ms'):
        text = 'out = ' + F.pr(f, bound=reconf.speller(suffix))
        case0 = {'life_layer': True, 'formula': fj, 'vars': vs, 'suffix': suffix, 'spec': text}
        for name, c1, f1, ds in reconf.lived_objects('dt_off', f, suffix, vs, res, mod, case0):
            if F.max_bound(f1) > 100:
                res.outcomes['life skipped: window of a thousand samples (dense result on a 5-sample signal is not settled anywhere)'] += 1
                continue
            c0 = [l for l in reconf.lives() if l[0] == name][0][1]
            cs = dense_lived(text, vs, c0, c1)
            for t in F.traces(n, F.V2, len(vs), minlen=2):
                w = F.trace_dict(t, vs)
                case = dict(case0, life=name, trace=w)
                res.evaluations += 1
                msg = life_case(case, (c1, f1, ds, cs))
                if msg:
                    res.violation(mod, case, msg)
                    res.outcomes['disagree'] += 1
                else:
                    res.outcomes['agree'] += 1
                    res.flags['life_cases'] += 1
                    if len(t) > refsem.horizon(f1) and refsem.top_matters(f1, w, len(t)):
                        res.nontrivial += 1
                        res.flags['life_nontrivial'] += 1
                res.digest(text, name, t, msg)
    res.sample({'spec': text, 'lives': [l[0] for l in reconf.lives()][:4]}, 1)


def half_bound(I):
    return '[%s,%s]' % (F.fnum(I[0] * 0.5), F.fnum(I[1] * 0.5))


def mixed_units_bound(I):
    return '[%ds,%dms]' % (I[0], I[1] * 1000)


CONFIGS = (('1s', 1.0, F.default_bound, None), ('500ms', 0.5, half_bound, (500, 'ms')), ('1s-mixed-units', 1.0, mixed_units_bound, None),
           # the combined classes StlDiscreteTimeSpecification / StlDenseTimeSpecification (evaluate() and update() behind one set of setters)
           ('500ms-combined-classes', 0.5, half_bound, (500, 'ms'), True))


def _specs(text, vs, cfg):
    comb = len(cfg) > 4
    return (impl.build('dt_off', text, vs, period=cfg[3], combined=comb), impl.build('ct_off', text, vs, combined=comb))


def check_case(case, specs=None):
    f = F.from_json(case['formula'])
    vs = case['vars']
    cfg = [c for c in CONFIGS if c[0] == case['config']][0]
    text = 'out = ' + F.pr(f, cfg[2])
    if specs is None:
        specs = _specs(text, vs, cfg)
    w = case['trace']
    n = len(next(iter(w.values())))
    h = refsem.horizon(f)
    k1, dv = impl.outcome(kinds.dt_values, 'dt_off', specs[0], w, [i * cfg[1] for i in range(n)])
    k2, cv = impl.outcome(impl.ct_evaluate, specs[1], kinds.grid_signal(w, cfg[1]))
    if k1 != 'ok' or k2 != 'ok':
        return 'evaluate() raised %s' % (dv if k1 != 'ok' else cv,)
    for k in range(n):
        if k + h < n:
            c = dref.stepval(cv, k * cfg[1])
            if not refsem.same(c, dv[k]):
                return 'dense value at t=%r is %r, discrete value at sample %d is %r (period %s)' % (k * cfg[1], c, k, dv[k], cfg[0])
    return None


def run_shard(shard, tier, res):
    mod = sys.modules[__name__]
    if 'life' in shard:
        return run_life(shard, tier, res, mod)
    quick = tier == 'quick'
    for fj in shard['formulas']:
        f = F.from_json(fj)
        vs = sorted(F.fvars(f))
        res.formulas += 1
        n = (5 if len(vs) == 1 else 3) if quick else (6 if len(vs) == 1 else 4)
        values = F.V3 if (len(vs) == 1 or not quick) else F.V2
        if shard.get('deep'):
            n, values = (9 if quick else 11), F.V2
        if shard.get('deep3'):
            n, values = (8 if quick else 10), F.V3
        for cfg in (CONFIGS[:2] if shard.get('deep3') and quick else CONFIGS):
            if len(cfg) > 4 and quick and res.formulas % 2:
                continue
            text = 'out = ' + F.pr(f, cfg[2])
            try:
                specs = _specs(text, vs, cfg)
            except Exception as e:
                res.violation(mod, {'formula': fj, 'vars': vs, 'config': cfg[0], 'trace': {}}, 'parse() raised %s: %s' % (type(e).__name__, e))
                continue
            for ti, t in enumerate(F.traces(n, values, len(vs), minlen=2)):
                w = F.trace_dict(t, vs)
                case = {'formula': fj, 'vars': vs, 'config': cfg[0], 'trace': w, 'spec': text}
                res.evaluations += 1
                msg = check_case(case, specs)
                if msg:
                    res.violation(mod, case, msg)
                    res.outcomes['disagree'] += 1
                else:
                    res.outcomes['agree'] += 1
                    if len(t) > refsem.horizon(f) and refsem.top_matters(f, w, len(t)):
                        res.nontrivial += 1
                if ti == 20:
                    res.sample(case, 1)
                res.digest(text, ti, msg)


def replay(case):
    if case.get('life_layer'):
        m = life_case(case)
        return [m] if m else []
    m = check_case(case)
    return [m] if m else []


def finalize(agg, outcomes, flags, tier):
    from ..runner import Broken
    if agg['nontrivial'] < 1000:
        raise Broken('vacuous: only %d non-trivial cases' % agg['nontrivial'])
    if flags.get('life_nontrivial', 0) < 100:
        raise Broken('vacuous: only %d non-trivial cases on re-configured objects' % flags.get('life_nontrivial', 0))
    return {'cases_on_reconfigured_objects': flags.get('life_cases', 0)}
