"""C04 - dense-time offline robustness equals the dense-time reference (engine E1)."""
import itertools
import sys

from .. import formula as F
from .. import refsem
from .. import dref
from .. import impl

ID = 'C04'
LEVEL = 'exploration'
RULE = ('all dense-time formulas of the stated fragment (<=2 operators, no prev/next/rise/fall, 3-chains) x all step signals whose '
        'break-points are subsets of the half-unit grid on [t0, t0+L] (independent per variable, t0 in {0,1}); the real dense offline '
        'evaluate() output is read as a right-continuous step function and compared with the grid reference at every cell start and '
        'midpoint of the domain, plus non-decreasing time-stamps and first time-stamp = t0; a large-magnitude layer (values 1e9, 1e9+1, 1e9+2, '
        'results up to 2e9 with unit steps, compared exactly); every third data set is handed over in tuples instead of lists; a re-use layer: specifications with named sub-formulas and sqrt, one object alternating between data sets '
        'it must reject (negative sample under sqrt) and data sets it must evaluate - every accepted evaluation compared with the reference; non-trivial = top operator mattered on the reference')
ASSUMPTIONS = ['all variables of a data set start at the same t0 and end at the same time; break-points and bounds on the half-unit grid',
               'the reference is a cell computation validated against itself at two grid resolutions',
               'open finding site:C04-nonzero-start-bounded (t0 > 0 with a bounded temporal operator) is suppressed syntactically']

DENSE_U = ('not', 'once', 'historically', 'eventually', 'always')
DENSE_B = ('and', 'or', 'implies', 'iff', 'xor', 'since', 'until', 'unless')


KNOWN_KEY = 'site:C04-nonzero-start-bounded'


def site(case):
    # coarse fall-back, used only where the executable description of the defect (dref.evaluate_offline_variant) does not
    # apply; everywhere else check_case() itself separates the documented behaviour from any other deviation
    if not case.get('no_variant'):
        return None
    try:
        f = F.from_json(case['formula'])
    except Exception:
        return None
    t0 = min(s[0][0] for s in case['signals'].values())
    if t0 > 0 and any(F.interval(g) is not None for g in F.subforms(f)):
        return 'C04-nonzero-start-bounded'
    return None


def matches_documented_defect(out, f, signals, times):
    """True when `out` is exactly what the hard-coded-zero behaviour (open finding) produces; None when that description is unavailable"""
    try:
        var, start = dref.evaluate_offline_variant(f, signals, times)
    except ValueError:
        return None
    if not isinstance(out, list) or not out or out[0][0] != start:
        return False
    ts = [s[0] for s in out]
    if any(b < a for a, b in zip(ts, ts[1:])):
        return False
    return all(v is None or refsem.same(dref.stepval(out, t), v) for t, v in zip(times, var))


def formula_set(tier):
    quick = tier == 'quick'
    I = ((0, 1), (1, 2)) if quick else F.I_QUICK
    U = F.unary_ops(I, ops=DENSE_U)
    B = F.binary_ops(I, ops=DENSE_B)
    leaf = [(F.PX, F.PY, F.X)] if quick else [(F.PX, F.PY, F.X), (F.X, F.Y, F.PX)]
    fs = list(F.F(2, U, B, leaf))
    if quick:
        Uc = [('once', (0, 1)), ('historically', (1, 2)), ('eventually', (1, 2)), ('always', (0, 1)), ('once', None)]
    else:
        Uc = F.unary_ops(((0, 1), (1, 2)), ops=DENSE_U)
    fs += list(F.chains(3, Uc, F.PX))
    # atoms with arithmetic over two unaligned variables
    X, Y = F.X, F.Y
    for a in (('pred', '>', ('+', X, Y), F.C1), ('pred', '==', X, Y), ('pred', '<', ('abs', ('-', X, Y)), F.C1),
              ('pred', '>=', ('neg', X), Y), ('pred', '>=', ('*', X, Y), F.C0), ('pred', '<=', ('/', X, F.C2), Y),
              ('pred', '!==', X, F.C0)):
        fs += [a, ('once', (0, 1), a), ('always', (1, 2), a), ('since', None, a, F.PY)]
    fs += [f for f in F.patterns() if not F.has_op(f, ('prev', 's_prev', 'next', 's_next', 'rise', 'fall'))]
    out, seen = [], set()
    for f in fs:
        if f not in seen:
            seen.add(f)
            out.append(f)
    return out


def signal_sets(nvars, tier):
    """list of {var: samples} for the variable list ['x'] or ['x','y']"""
    quick = tier == 'quick'
    out = []
    for t0 in (0.0, 1.0):
        if nvars == 1:
            if t0 == 0:
                sx = dref.signals_L(2, F.V3, t0) if quick else dref.signals_L(3, F.V3, t0, max_interior=3)
            else:
                sx = dref.signals_L(2, F.V2, t0)
            out += [{'x': s} for s in sx]
        else:
            if t0 == 0:
                sx = dref.signals_L(2, F.V2, t0, max_interior=1 if quick else None)
                sy = dref.signals_L(2, F.V2, t0, max_interior=1)
            else:
                sx = dref.signals_L(2, F.V2, t0, max_interior=0 if quick else 1)
                sy = dref.signals_L(2, F.V2, t0, max_interior=1)
            out += [{'x': a, 'y': b} for a in sx for b in sy]
    return out


def unit_formulas():
    """(formula, bound style): bounds spelled with explicit (also mixed) units; the default unit stays s"""
    from . import c03
    px, py = F.PX, F.PY
    base = [('once', (1, 2), px), ('historically', (0, 2), F.X), ('eventually', (1, 2), px), ('always', (1, 1), F.X),
            ('since', (1, 2), px, py), ('until', (0, 2), px, py), ('unless', (1, 2), px, py), ('always', (1, 2), ('eventually', (0, 1), F.X)),
            # the same operator nested in itself (op[a,b] op[c,d] p = op[a+c,b+d] p invites a collapsing evaluator), each level in its own notation
            ('eventually', (0, 1), ('eventually', (1, 2), F.X)), ('always', (1, 1), ('always', (0, 2), px)), ('once', (0, 1), ('once', (1, 2), px)),
            ('historically', (1, 2), ('historically', (0, 1), F.X)), ('eventually', (0, 1), ('eventually', (0, 1), ('eventually', (1, 1), px))),
            ('once', (1, 2), ('historically', (0, 1), ('once', (0, 1), F.X))), ('since', (0, 1), ('once', (1, 2), px), ('historically', (0, 2), py))]
    return [(f, st) for f in base for st in c03.UNIT_STYLES]


def shards(tier):
    fs = formula_set(tier)
    per = 4 if tier == 'quick' else 2
    out = [{'formulas': [F.to_json(f) for f in fs[i:i + per]]} for i in range(0, len(fs), per)]
    uf = unit_formulas()
    out += [{'formulas': [], 'units': [(F.to_json(f), st) for f, st in uf[i:i + 4]]} for i in range(0, len(uf), 4)]
    deep = [f for f in F.deep_formulas(DENSE_U, DENSE_B) if not F.has_op(f, ('prev', 'next', 'rise'))]
    deep = deep[::5] if tier == 'quick' else deep
    out += [{'formulas': [F.to_json(f) for f in deep[i:i + 2]], 'deep': True} for i in range(0, len(deep), 2)]
    big = big_formulas()
    out += [{'formulas': [F.to_json(f) for f in big[i:i + 2]], 'big': True} for i in range(0, len(big), 2)]
    it = int_formulas()
    out += [{'formulas': [F.to_json(f) for f in it[i:i + 8]], 'ints': True} for i in range(0, len(it), 8)]
    out += [{'formulas': [], 'rejected': i} for i in range(len(rejected_specs()))]
    return out


def rejected_specs():
    """(defs, top): named sub-formulas and a partial function (sqrt) - evaluate() raises on data with a negative y"""
    px, X, Y = F.PX, F.X, F.Y
    sq = ('pred', '>=', ('sqrt', Y), F.C1)
    return [
        ([('p', ('always', (0, 2), px))], ('and', ('ref', 'p'), sq)),
        ([('p', ('once', (0, 1), px)), ('q', ('or', ('ref', 'p'), ('pred', '<=', X, ('const', -1.0))))], ('since', None, ('ref', 'q'), sq)),
        ([], ('and', ('eventually', (0, 1), px), sq)),
        ([('p', sq)], ('or', ('historically', (0, 1), ('ref', 'p')), px)),
        ([('p', ('eventually', (1, 2), X)), ('r', ('-', ('ref', 'p'), ('sqrt', Y)))], ('pred', '>=', ('ref', 'r'), F.C0)),
    ]


def run_rejected(shard, tier, res, mod):
    """one specification object alternates between data sets it must reject (sqrt of a negative sample) and data sets it must evaluate:
    every accepted evaluation must equal the reference, whatever the object was asked before"""
    defs, top = rejected_specs()[shard['rejected']]
    env = dict(defs)
    f = F.inline(top, env)
    vs = ['x', 'y']
    subs = tuple('%s = %s;' % (n, F.pr(g)) for n, g in defs)
    text = 'out = ' + F.pr(top)
    fj = F.to_json(f)
    spec = impl.build('ct_off', text, vs, subspecs=subs)
    sxs = dref.signals_L(2, F.V2, 0.0, max_interior=1 if tier == 'quick' else 2)
    sys_ = dref.signals_L(2, (0.0, 4.0), 0.0, max_interior=1)
    bads = [{'x': sxs[0], 'y': ((0.0, 4.0), (1.0, -1.0), (2.0, 4.0))}, {'x': sxs[-1], 'y': ((0.0, -1.0), (2.0, -1.0))}]
    res.formulas += 1
    si = 0
    for sx in sxs:
        for sy in sys_:
            for bi, bad in enumerate(bads):
                si += 1
                kb, vb = impl.outcome(impl.ct_evaluate, spec, bad)
                sig = {'x': sx, 'y': sy}
                case = {'rejected_layer': shard['rejected'], 'formula': fj, 'spec': text, 'subspecs': list(subs), 'vars': vs,
                        'before': {v: [list(p) for p in s] for v, s in bad.items()}, 'signals': {v: [list(p) for p in s] for v, s in sig.items()}}
                res.evaluations += 1
                if kb == 'ok':
                    res.violation(mod, case, 'evaluate() accepted a data set with sqrt of a negative sample and returned %r' % (vb[:4],))
                    continue
                ref = reference(f, sig, si)
                k, val = impl.outcome(impl.ct_evaluate, spec, sig)
                msg = ('evaluate() raised %s' % (val,)) if k != 'ok' else compare(val, sig, ref[0], ref[1])
                if msg:
                    res.violation(mod, case, 'after a rejected evaluate() on the same object: ' + msg)
                    res.outcomes['differs after a rejected evaluation'] += 1
                else:
                    res.outcomes['agree'] += 1
                    res.flags['after_rejected'] += 1
                    if not all(v in (dref.INF, -dref.INF) for v in ref[1]):
                        res.nontrivial += 1
                res.digest(text, si, msg)
    res.sample({'spec': text, 'sub_specs': list(subs), 'rejected_data': case['before'], 'then': case['signals']}, 1)


def replay_rejected(case):
    defs, top = rejected_specs()[case['rejected_layer']]
    f = F.inline(top, dict(defs))
    spec = impl.build('ct_off', case['spec'], case['vars'], subspecs=tuple(case['subspecs']))
    impl.outcome(impl.ct_evaluate, spec, {v: [tuple(p) for p in s] for v, s in case['before'].items()})
    sig = {v: [tuple(p) for p in s] for v, s in case['signals'].items()}
    ref = reference(f, sig, 0)
    k, val = impl.outcome(impl.ct_evaluate, spec, sig)
    msg = ('evaluate() raised %s' % (val,)) if k != 'ok' else compare(val, sig, ref[0], ref[1])
    return [msg] if msg else []


def deep_signal_sets(nvars, tier):
    """longer signals (7 samples, domain [0,6]) for formulas with bounds up to 7"""
    import itertools
    tsets = ((0.0, 1.0, 2.0, 3.0, 4.0, 5.0, 6.0), (0.0, 0.5, 1.5, 2.0, 3.5, 4.0, 6.0))
    out = []
    if nvars == 1:
        for ts in tsets:
            for vals in itertools.product(F.V2, repeat=len(ts)):
                out.append({'x': tuple(zip(ts, vals))})
        return out[::5] if tier == 'quick' else out
    ty = (0.0, 1.5, 3.0, 6.0)
    for vx in itertools.product(F.V2, repeat=7):
        for vy in itertools.product(F.V2, repeat=4):
            out.append({'x': tuple(zip(tsets[0], vx)), 'y': tuple(zip(ty, vy))})
    return out[::24] if tier == 'quick' else out[::2]


BIG = 1e9
VBIG_X = (BIG, BIG + 1.0, BIG + 2.0)
VBIG_Y = (0.0, BIG)


def big_formulas():
    """formulas whose intermediate results reach magnitude 2e9 while neighbouring values differ by one unit (all exactly representable):
    the step structure of a large-valued signal is as much part of rho as that of a small one"""
    X, Y = F.X, F.Y
    s = ('+', X, Y)
    c = ('const', 2 * BIG + 1.5)
    p = ('pred', '<=', s, c)
    return [s, p, ('-', X, Y), ('and', X, Y), ('or', X, Y), ('implies', Y, X), ('since', None, X, Y), ('until', (0, 1), X, Y),
            ('always', (0, 1), p), ('once', (0, 1), p), ('eventually', (0, 1), s), ('historically', (1, 2), s),
            ('pred', '>=', X, Y), ('pred', '>', ('+', X, ('const', BIG)), c), ('since', (0, 1), p, ('pred', '>=', Y, F.C1)),
            ('not', s), ('abs', ('-', Y, X)), ('*', X, ('const', 2.0)), ('and', p, ('pred', '>=', Y, F.C1))]


def big_signal_sets(tier):
    sx = dref.signals_L(2, VBIG_X, 0.0, max_interior=1)
    sy = dref.signals_L(2, VBIG_Y, 0.0, max_interior=1)
    out = [{'x': a, 'y': b} for a in sx for b in sy]
    return out[::3] if tier == 'quick' else out


def int_formulas():
    I = ((0, 1), (1, 2))
    fs = list(F.F(1, F.unary_ops(I, ops=DENSE_U), F.binary_ops(I, ops=DENSE_B), [(F.PX, F.PY, F.X)]))
    fs += [('pred', '>', ('+', F.X, F.Y), F.C1), ('pred', '==', F.X, F.Y), ('pred', '>=', ('*', F.X, F.Y), F.C0), ('pred', '<=', ('/', F.X, F.C2), F.Y)]
    return fs


def int_signal_sets(nvars, tier):
    """time-stamps and values are Python ints (sampling instants 0..3, independent per variable)"""
    def ints(sigs):
        return [tuple((int(t), int(v)) for t, v in s) for s in sigs]
    sx = ints(dref.signals_L(3, (-1, 2), 0.0, step=1.0))
    if nvars == 1:
        return [{'x': a} for a in sx]
    sy = ints(dref.signals_L(3, (-1, 2), 0.0, max_interior=1, step=1.0))
    out = [{'x': a, 'y': b} for a in sx for b in sy]
    return out[::3] if tier == 'quick' else out


def reference(f, signals, idx=0, hook=None):
    """(times, values) of the reference on the domain; the two-resolution self-check runs on every 4th case"""
    t0 = min(s[0][0] for s in signals.values())
    tend = max(s[-1][0] for s in signals.values())
    times = dref.query_times(t0, tend)
    return times, dref.evaluate(f, signals, times, hook=hook, selfcheck=(idx % 4 == 0))


def compare(out, signals, times, ref, exact=False):
    """message or None; out = list returned by the dense monitor.  exact: the values of the data set are chosen so that
    every intermediate result is exactly representable, and the comparison tolerates nothing"""
    t0 = min(s[0][0] for s in signals.values())
    if not isinstance(out, list) or not out:
        return 'evaluate() returned %r' % (out,)
    ts = [s[0] for s in out]
    if any(b < a for a, b in zip(ts, ts[1:])):
        return 'time-stamps decrease: %r' % (ts,)
    if ts[0] != t0:
        return 'output starts at %r, the common input domain starts at %r (output %r)' % (ts[0], t0, out[:4])
    for t, r in zip(times, ref):
        v = dref.stepval(out, t)
        if not (v == r if exact and v is not None and r is not None else refsem.same(v, r)):
            return 'value at t=%r is %r, reference rho is %r (output %r)' % (t, v, r, out[:8])
    return None


def check_case(case, spec=None, idx=0, ref=None):
    f = F.from_json(case['formula'])
    signals = {v: [tuple(p) for p in s] for v, s in case['signals'].items()}
    if spec is None:
        spec = impl.build('ct_off', case['spec'], case['vars'])
    if ref is None:
        try:
            ref = reference(f, signals, idx)
        except refsem.DomainError:
            return None
    if case.get('containers') == 'tuple':
        # the same samples handed over in tuples (variable entry, sample list and samples): a container type the dense offline monitor accepts
        kind, val = impl.outcome(spec.evaluate, *[(v, tuple((t, x) for t, x in s_)) for v, s_ in signals.items()])
    else:
        kind, val = impl.outcome(impl.ct_evaluate, spec, signals)
    if kind != 'ok':
        return 'evaluate() raised %s' % (val,)
    msg = compare(val, signals, ref[0], ref[1], exact=bool(case.get('exact')))
    if msg is not None and case.get('containers') == 'tuple':
        msg += ' (samples given in tuples instead of lists)'
    if msg is not None:
        t0 = min(s[0][0] for s in signals.values())
        if t0 > 0 and any(F.interval(g) is not None for g in F.subforms(f)):
            m = matches_documented_defect(val, f, signals, ref[0])
            if m is True:
                return KNOWN_KEY
            if m is None:
                case['no_variant'] = True
            else:
                msg += ' (and this is not the documented hard-coded-zero behaviour either)'
    return msg


def run_shard(shard, tier, res):
    mod = sys.modules[__name__]
    if 'rejected' in shard:
        return run_rejected(shard, tier, res, mod)
    cache = {}
    from . import c03
    todo = [(fj, None) for fj in shard['formulas']] + [(fj, st) for fj, st in shard.get('units', [])]
    for fj, style in todo:
        f = F.from_json(fj)
        vs = sorted(F.fvars(f)) or ['x']
        text = 'out = ' + (F.pr(f, c03.unit_bound(style)) if style else F.pr(f))
        res.formulas += 1
        try:
            spec = impl.build('ct_off', text, vs)
        except Exception as e:
            res.violation(mod, {'formula': fj, 'spec': text, 'vars': vs, 'signals': {'x': [[0.0, 0.0]]}},
                          'parse() raised %s: %s' % (type(e).__name__, e))
            continue
        key = (len(vs), tier)
        if key not in cache:
            cache[key] = int_signal_sets(len(vs), tier) if shard.get('ints') else big_signal_sets(tier) if shard.get('big') else deep_signal_sets(len(vs), tier) if shard.get('deep') \
                else signal_sets(len(vs), tier)
        for si, sig in enumerate(cache[key]):
            sig = {v: sig[v if v in sig else 'x'] for v in vs} if vs != ['y'] else {'y': sig['x']}
            case = {'formula': fj, 'spec': text, 'vars': vs, 'signals': {v: [list(p) for p in s] for v, s in sig.items()}}
            if shard.get('big'):
                case['exact'] = True
            if si % 3 == 2:
                case['containers'] = 'tuple'
                res.flags['tuple_container_cases'] += 1
            res.evaluations += 1
            try:
                ref = reference(f, sig, si)
            except refsem.DomainError:
                continue
            msg = check_case(case, spec, si, ref)
            if msg == KNOWN_KEY:
                res.known[KNOWN_KEY] += 1
                res.outcomes['documented hard-coded-zero behaviour'] += 1
                res.digest(text, si, msg)
                continue
            if msg is not None:
                if check_case(case) is None:
                    msg += ' (only on a re-used specification object)'
                res.violation(mod, case, msg)
                res.outcomes[msg.split(' is ')[0][:30]] += 1
            else:
                res.outcomes['agree'] += 1
                vals = ref[1]
                if not all(v in (dref.INF, -dref.INF) for v in vals):
                    kids = [dref.evaluate(c, sig, ref[0], selfcheck=False) for c in F.children(f) if c[0] != 'const']
                    if all(k != vals for k in kids):
                        res.nontrivial += 1
            if si == 11:
                res.sample({'spec': text, 'signals': case['signals']})
            res.digest(text, si, msg)


def replay(case):
    if 'rejected_layer' in case:
        return replay_rejected(case)
    m = check_case(case)
    return [m] if m and m != KNOWN_KEY else []


def finalize(agg, outcomes, flags, tier):
    from ..runner import Broken
    if agg['nontrivial'] < 1000:
        raise Broken('vacuous: only %d non-trivial cases' % agg['nontrivial'])
    return {}
