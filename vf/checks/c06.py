"""C06 - interface-aware semantics differ from standard only at insensitive predicates (engine E1)."""
import itertools
import sys

from .. import formula as F
from .. import refsem
from .. import dref
from .. import impl
from .. import kinds

ID = 'C06'
LEVEL = 'exploration'
RULE = ('formulas (<=2 operators) over predicates on x only, y only and mixing x and y (plus 26 predicates whose operands are Boolean, temporal or event expressions over the variables, e.g. (x xor y) >= 1), x all 4 input/output assignments of (x, y) plus the default '
        'declarations x the 5 semantics x the 4 real monitor kinds x all traces up to length 3 (dense: the grid step signal and unaligned signals; '
        'online: sample by sample / batch and one-at-a-time); the result must equal the reference rho in which a predicate that mentions no '
        'output (input) variable contributes +-inf by its truth value under output (input) robustness and 0 under output (input) vacuity, every other '
        'predicate keeps its numeric robustness; with STANDARD semantics every assignment must give the result of the default declarations; '
        're-declaration layer: all ordered pairs of interface declarations - declared, parsed (offline: used once), changed with set_var_io_type(), parsed again - must give the result of the declaration in force; '
        'non-trivial = a non-standard semantics with at least one insensitive predicate and a reference output that differs from the standard one')
ASSUMPTIONS = ['reference: vf/refsem.py / vf/dref.py with a predicate hook; values V3/{-1,2}']

SEMS = ('standard', 'output_robustness', 'input_robustness', 'output_vacuity', 'input_vacuity')
IOS = (None, {'x': 'input', 'y': 'output'}, {'x': 'output', 'y': 'input'}, {'x': 'input', 'y': 'input'}, {'x': 'output', 'y': 'output'})
MIX = ('pred', '>', ('+', F.X, F.Y), F.C1)
EQ = ('pred', '==', F.X, F.Y)


def site(case):
    """the open finding of C03 (pastify() of a past/event operator over an operand with positive horizon) also breaks what C06 states for
    the pastified online monitor, under every semantics including STANDARD; same syntactic predicate"""
    from . import c03
    return c03.site(case)


def make_hook(sem, io):
    """reference predicate hook for a semantics and an io assignment (default declarations: every variable is an output)"""
    if sem == 'standard':
        return None
    io = io or {}
    want = 'output' if sem.startswith('output') else 'input'

    def holds(c, a, b):
        return {'>=': a >= b, '>': a > b, '<=': a <= b, '<': a < b, '==': a == b, '!==': a != b}[c]

    def hook(f, l, r, out):
        vs = F.fvars(f)
        if any(io.get(v, 'output') == want for v in vs):
            return out
        if sem.endswith('vacuity'):
            return [0.0 for _ in out]
        return [refsem.INF if holds(f[1], a, b) else -refsem.INF for a, b in zip(l, r)]
    return hook


def formula_set(tier):
    quick = tier == 'quick'
    I = ((0, 1), (1, 2))
    U = F.unary_ops(I, ops=('not', 'once', 'historically', 'eventually', 'always', 'prev', 'rise'))
    B = F.binary_ops(I, ops=('and', 'or', 'implies', 'since', 'until'), unless=False)
    GT = ('pred', '>', F.X, F.C0)      # strict comparisons: truth value and robustness sign differ exactly at the threshold
    LT = ('pred', '<', F.Y, F.C1)
    NE = ('pred', '!==', F.X, F.Y)
    leaves = [(F.PX, F.PY, MIX), (MIX, F.PX, F.PY), (F.PY, EQ, F.PX), (GT, LT, GT), (NE, F.PX, NE)]
    fs = list(F.F(1, U, B, leaves))
    f2 = [f for f in F.F(2, U, B, leaves[:1] if quick else leaves) if F.size(f) == 2]
    fs += f2[::6] if quick else f2[::4]
    fs += [('and', ('once', (0, 1), F.PX), ('or', MIX, ('historically', None, F.PY))), ('pred', '>=', ('abs', F.X), F.C1), ('pred', '<', ('neg', F.Y), F.C0)]
    # predicates whose operands are themselves Boolean / temporal / event expressions over the variables (legal for the grammar): such a
    # predicate still "mentions" the variables below it
    X, Y = F.X, F.Y
    comp = [('xor', X, Y), ('and', X, Y), ('or', X, Y), ('iff', X, Y), ('implies', X, Y), ('not', X), ('once', (0, 1), X), ('historically', None, Y),
            ('prev', X), ('rise', X), ('since', None, X, Y), ('eventually', (0, 1), Y), ('always', (0, 1), ('xor', X, Y)), ('not', ('xor', X, Y)),
            ('xor', ('abs', X), Y), ('xor', X, F.C1), ('once', None, ('xor', Y, X))]
    fs += [('pred', '>=', g, F.C1) for g in comp] + [('pred', '<', ('+', g, X), F.C0) for g in comp[:6]] + \
        [('and', ('pred', '>', ('xor', X, Y), F.C1), F.PY), ('once', (0, 1), ('pred', '<=', ('xor', X, X), F.C0)), ('pred', '==', ('xor', X, Y), ('or', X, Y))]
    out, seen = [], set()
    for f in fs:
        if f not in seen:
            seen.add(f)
            out.append(f)
    return out


def modular_set(tier):
    """(inlined formula, sub-spec texts, top text): named sub-formulas (also arithmetic ones) shared by several predicates"""
    from . import c09
    X, Y = F.X, F.Y
    ax = ('abs', X)
    fs = [('and', ('pred', '<=', ax, Y), ('pred', '>=', ax, F.C1)),
          ('or', ('pred', '>=', ax, F.C1), ('pred', '>', ('-', Y, ax), F.C0)),
          ('and', ('once', (0, 1), F.PX), ('or', MIX, ('prev', ('once', (0, 1), F.PX)))),
          ('implies', ('pred', '>=', ('neg', Y), F.C0), ('historically', (0, 1), ('pred', '<', ('neg', Y), X)))]
    out = []
    for f in fs:
        for subs, text, defs, top in c09.variants_any(f, 2 if tier == 'quick' else 30, arith=True):
            out.append((f, subs, text))
    return out


HUGE = 2 ** 53       # Python ints around 2**53 against the float constant 2**53: "holds" is the exact comparison, int - float is not exact


def huge_set():
    c = ('const', float(HUGE))
    ps = [('pred', op, F.X, c) for op in ('>=', '>', '<=', '<', '==', '!==')]
    return ps + [('and', ps[1], F.PY), ('once', (0, 1), ps[3]), ('or', ('not', ps[0]), ('pred', '<=', F.Y, c))]


def shards(tier):
    fs = formula_set(tier)
    per = 4 if tier == 'quick' else 2
    out = [{'formulas': [F.to_json(f) for f in fs[i:i + per]]} for i in range(0, len(fs), per)]
    out += [{'modular': i} for i in range(len(modular_set(tier)))]
    hs = huge_set()
    out += [{'formulas': [F.to_json(f) for f in hs[i:i + 3]], 'huge': True} for i in range(0, len(hs), 3)]
    rl = [f for f in fs if len(F.fvars(f)) == 2][::(9 if tier == 'quick' else 3)]
    out += [{'formulas': [F.to_json(f) for f in rl[i:i + 2]], 'relabel': True} for i in range(0, len(rl), 2)]
    return out


def dense_ok(f):
    return not F.has_op(f, ('prev', 's_prev', 'next', 's_next', 'rise', 'fall'))


def plans_for(f):
    out = [('dt_off', False)]
    if F.past_only(f):
        out.append(('dt_on', False))
    elif not F.is_temporal_unbounded_future(f):
        out.append(('dt_on', True))
    if dense_ok(f):
        out.append(('ct_off', False))
        if F.past_only(f):
            out.append(('ct_on', False))
    return out


DENSE_SIGS = None


def dense_signals(vs):
    global DENSE_SIGS
    if DENSE_SIGS is None:
        sx = dref.signals_L(2, F.V2, 0.0, max_interior=1)
        s3 = dref.signals_L(2, (-1.0, 0.0, 1.0), 0.0, max_interior=1)   # hits the thresholds 0 and 1 exactly
        DENSE_SIGS = {1: [{'x': s} for s in sx[::2]] + [{'x': s} for s in s3[::3]],
                      2: [{'x': a, 'y': b} for a in sx[::4] for b in sx[1::5]] + [{'x': a, 'y': b} for a in s3[::9] for b in s3[3::13]]}
    return [{v: s[v if v in s else 'x'] for v in vs} for s in DENSE_SIGS[len(vs)]]


def check_case(case):
    f = F.from_json(case['formula'])
    vs = case['vars']
    kind, pastify, sem, io = case['kind'], case['pastify'], case['semantics'], case['io']
    hook = make_hook(sem, io)
    if case.get('io_before') is not None:
        # the interface was declared differently first; the object was parsed (and, offline, used once) with that declaration, then the io types
        # were changed with set_var_io_type() and the specification parsed again: only the declaration in force counts
        spec = impl.build(kind, case['spec'], vs, io_types=case['io_before'], semantics=sem, pastify=False, subspecs=tuple(case.get('subspecs', ())))
        if kind.endswith('off'):
            d0 = case['data']
            if kind == 'dt_off':
                impl.outcome(kinds.dt_values, kind, spec, d0)
            else:
                impl.outcome(kinds.ct_samples, kind, spec, {v: [tuple(q) for q in s_] for v, s_ in d0.items()}, 'all')
        for v, t in io.items():
            spec.set_var_io_type(v, t)
        spec.parse()
        if pastify:
            spec.pastify()
    else:
        spec = impl.build(kind, case['spec'], vs, io_types=io, semantics=sem, pastify=pastify, subspecs=tuple(case.get('subspecs', ())))
    if kind.startswith('dt'):
        w = case['data']
        n = len(next(iter(w.values())))
        ref = refsem.ev(f, w, n, hook)
        k, vals = impl.outcome(kinds.dt_values, kind, spec, w)
        if k != 'ok':
            return 'monitoring raised %s' % (vals,), None
        if pastify:
            h = int(refsem.horizon(f))
            # update i of the pastified monitor reports position i-h of the prefix w[0..i]
            for i in range(h, n):
                wi = {v: s[:i + 1] for v, s in w.items()}
                r = refsem.ev(f, wi, i + 1, hook)[i - h]
                if not refsem.same(vals[i], r):
                    return 'update %d returned %r, reference (%s, io %s) is %r' % (i + 1, vals[i], sem, io, r), ref
            return None, ref
        if kind == 'dt_on':
            for i in range(n):
                wi = {v: s[:i + 1] for v, s in w.items()}
                r = refsem.ev(f, wi, i + 1, hook)[i]
                if not refsem.same(vals[i], r):
                    return 'update %d returned %r, reference (%s, io %s) is %r' % (i + 1, vals[i], sem, io, r), ref
            return None, ref
        if not refsem.same_list(vals, ref):
            return 'offline result %r, reference (%s, io %s) is %r' % (vals, sem, io, ref), ref
        return None, ref
    sig = {v: [tuple(p) for p in s] for v, s in case['data'].items()}
    tend = max(s[-1][0] for s in sig.values())
    k, out = impl.outcome(kinds.ct_samples, kind, spec, sig, case.get('chunk', 'all'))
    if k != 'ok':
        return 'monitoring raised %s' % (out,), None
    if kind == 'ct_on':
        if not out:
            return None, None
        tend = min(tend, out[-1][0])
    times = dref.query_times(0.0, tend)
    ref = dref.evaluate(f, sig, times, hook=hook, selfcheck=False)
    for t, r in zip(times, ref):
        v = dref.stepval(out, t)
        if not refsem.same(v, r):
            return 'dense value at t=%r is %r, reference (%s, io %s) is %r' % (t, v, sem, io, r), ref
    return None, ref


def refsem_or_none(f, data, kind, sem, io):
    """reference under another interface declaration (only to tell whether the re-declaration mattered); discrete data only"""
    if not kind.startswith('dt'):
        return None
    try:
        return refsem.ev(f, data, len(next(iter(data.values()))), make_hook(sem, io))
    except Exception:
        return None


def run_shard(shard, tier, res):
    mod = sys.modules[__name__]
    quick = tier == 'quick'
    if 'modular' in shard:
        f, subs, mtext = modular_set(tier)[shard['modular']]
        todo = [(F.to_json(f), list(subs), mtext)]
    else:
        todo = [(fj, [], None) for fj in shard['formulas']]
    for fj, subs, mtext in todo:
        f = F.from_json(fj)
        vs = sorted(F.fvars(f))
        text = mtext or ('out = ' + F.pr(f))
        res.formulas += 1
        n = 3 if len(vs) == 1 else 2
        if not quick and len(vs) == 1:
            n += 1
        if len(vs) == 1:
            tl = list(F.traces(n, (-1.0, 0.0, 1.0, 2.0), 1))
        else:
            tl = list(F.traces(n, F.V2, 2)) + list(F.traces(n, (0.0, 1.0), 2))     # {-1,2} and the thresholds themselves
        if shard.get('huge'):
            hv = (HUGE - 1, HUGE, HUGE + 1, HUGE + 2)
            tl = list(F.traces(2, hv, 1)) if len(vs) == 1 else [t for t in F.traces(2, hv, 2)][::3]
        traces = [F.trace_dict(t, vs) for t in tl]
        for kind, pastify in plans_for(f):
            if shard.get('huge') and kind.startswith('ct'):
                continue
            if kind.startswith('dt'):
                datas = [(w, 'all') for w in traces]
            else:
                sigs = dense_signals(vs)
                sigs = sigs[::4] if quick else sigs
                datas = [({v: [list(p) for p in s] for v, s in sg.items()}, ch) for sg in sigs for ch in (('all', 'one') if kind == 'ct_on' else ('all',))]
            if shard.get('relabel'):
                # every ordered pair of different interface declarations: declared, parsed (and used), re-declared, parsed again
                for io0, io in itertools.permutations([i for i in IOS if i is not None], 2):
                    for sem in SEMS[1:]:
                        for di, (data, chunk) in enumerate(datas[::2]):
                            case = {'formula': fj, 'spec': text, 'vars': vs, 'kind': kind, 'pastify': pastify, 'semantics': sem, 'io': io, 'io_before': io0,
                                    'data': data, 'chunk': chunk, 'subspecs': subs}
                            res.evaluations += 1
                            try:
                                msg, ref = check_case(case)
                            except refsem.DomainError:
                                continue
                            if msg:
                                res.violation(mod, case, 'interface declared %r, parsed, re-declared %r with set_var_io_type() and parsed again: %s' % (io0, io, msg))
                                res.outcomes['%s %s mismatch after re-declaration' % (kind, sem)] += 1
                            else:
                                res.outcomes['agree'] += 1
                                res.flags['relabel_cases'] += 1
                                if ref is not None and ref != refsem_or_none(f, data, kind, sem, io0):
                                    res.nontrivial += 1
                                    res.flags['relabel_nontrivial'] += 1
                            res.digest(text, kind, sem, io0, io, di, msg)
                continue
            for io in IOS:
                if io is not None:
                    io = {v: t for v, t in io.items() if v in vs}
                    if len(vs) == 1 and list(io.values()) == ['output'] and False:
                        continue
                std_ref = {}
                for sem in SEMS:
                    for di, (data, chunk) in enumerate(datas):
                        case = {'formula': fj, 'spec': text, 'vars': vs, 'kind': kind, 'pastify': pastify, 'semantics': sem, 'io': io,
                                'data': data, 'chunk': chunk, 'subspecs': subs}
                        res.evaluations += 1
                        try:
                            msg, ref = check_case(case)
                        except refsem.DomainError:
                            continue
                        if msg:
                            res.violation(mod, case, msg)
                            res.outcomes['%s %s mismatch' % (kind, sem)] += 1
                        else:
                            res.outcomes['agree'] += 1
                            if sem == 'standard':
                                std_ref[di] = ref
                            elif ref is not None and std_ref.get(di) is not None and ref != std_ref[di]:
                                res.nontrivial += 1
                        res.digest(text, kind, sem, io, di, msg)
        res.sample({'spec': text, 'semantics': 'output_robustness', 'io': {'x': 'input', 'y': 'output'}, 'data': traces[-1]}, 1)


def replay(case):
    m, _ = check_case(case)
    return [m] if m else []


def finalize(agg, outcomes, flags, tier):
    from ..runner import Broken
    if agg['nontrivial'] < 1000:
        raise Broken('vacuous: only %d cases where the interface-aware reference differs from the standard one' % agg['nontrivial'])
    if flags.get('relabel_nontrivial', 0) < 100:
        raise Broken('vacuous: only %d re-declaration cases in which the two declarations give different references' % flags.get('relabel_nontrivial', 0))
    return {'re_declaration_cases': flags.get('relabel_cases', 0)}
