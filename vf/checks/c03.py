"""C03 - pastified bounded-future monitor = original robustness delayed by the horizon (engine E2)."""
import sys

from .. import formula as F
from .. import refsem
from .. import impl
from .. import explore
from . import c02

ID = 'C03'
LEVEL = 'model_checking'
RULE = ('[configuration-order family: for 9 formulas with next / bounded future beside a past operand, the monitor is built with set_sampling_period() before parse(), '
        'between parse() and pastify(), after pastify(), and changed after parse()/pastify() - 5 orders x 2 final configurations (s / 1 s, ms / 1 ms), same invariant] ' +
        '[sibling family: every Boolean connective over one operand without future (atom, not, prev, s_prev, rise, fall, once, historically, since) and one '
        'bounded-future operand (next, s_next, eventually, always, until), both orders - the shape in which pastify() delays a past operand] ' +
        'explicit-state BFS of the real pastified online monitor per bounded-future formula (<=2 operators over past, future, '
        'Boolean operators, 3-chains, unit-spelled bounds, unary minus/ln/log atoms); one transition = one real update(); '
        'invariant: for i >= h the i-th update() returns reference rho(phi, w[0..i], i-h) with h the reference horizon '
        '(next = 1); for future-free formulas (any unit spelling) pastified monitor = reference at delay 0; '
        'states merged on (object-graph dump, settled-window reference summary), merges validated; every transition with i >= h is non-trivial')
ASSUMPTIONS = ['value alphabets V3 / {-1,2}; default sampling period 1 s so that bounds are sample counts',
               'known finding site:C03-past-over-future is suppressed by a purely syntactic predicate (a past/event operator over an operand with positive horizon)',
               'searches that hit the depth/transition cap are reported as bounded, not as fixpoints']

BF_U = ('not', 'prev', 's_prev', 'next', 's_next', 'rise', 'fall', 'once', 'historically', 'eventually', 'always')
BF_B = ('and', 'or', 'implies', 'iff', 'xor', 'since', 'until', 'unless')
PAST_OVER = ('prev', 's_prev', 'rise', 'fall', 'once', 'historically', 'since')


def site(case):
    """syntactic predicate of the open finding: some past/event operator has an operand with horizon > 0"""
    try:
        f = F.from_json(case['formula'])
    except Exception:
        return None
    if not case.get('pastify'):
        return None
    for g in F.subforms(f):
        if g[0] in PAST_OVER and any(refsem.horizon(c) > 0 for c in F.children(g)):
            return 'C03-past-over-future'
    return None


def unit_bound(style):
    """spell sample-count bounds with explicit units (sampling period 1 s)"""
    count = [0]

    def b(I, style=style):
        lo, hi = I
        if style in ('alternate', 'alternate2'):
            # every interval of the formula in another notation than its neighbour (outermost first)
            cyc = ('s_both', 'ms_both', 'plain', 'us_begin') if style == 'alternate' else ('ms_end', 'plain', 'mixed', 's_both')
            style = cyc[count[0] % len(cyc)]
            count[0] += 1
        if style == 'plain':
            return '[%d,%d]' % (lo, hi)
        if style == 'ms_both':
            return '[%dms,%dms]' % (lo * 1000, hi * 1000)
        if style == 'ms_end':
            return '[%d,%dms]' % (lo * 1000, hi * 1000)   # a missing unit takes the other bound's unit
        if style == 's_both':
            return '[%ds,%ds]' % (lo, hi)
        if style == 'mixed':
            return '[%ds,%dms]' % (lo, hi * 1000)
        if style == 'us_begin':
            return '[%dus,%d]' % (lo * 1000000, hi * 1000000)
        raise ValueError(style)
    return b


UNIT_STYLES = ('ms_both', 'ms_end', 's_both', 'mixed', 'us_begin', 'alternate', 'alternate2')


def formula_set(tier):
    quick = tier == 'quick'
    I = ((0, 1), (1, 2)) if quick else F.I_QUICK
    U = [u for u in F.unary_ops(I, ops=BF_U) if not (u[0] in ('eventually', 'always') and u[1] is None)]
    B = [b for b in F.binary_ops(I, ops=BF_B) if not (b[0] in ('until', 'unless') and b[1] is None)]
    leaf = [(F.PX, F.PY, F.X)]
    fs = [f for f in F.F(2, U, B, leaf) if F.has_op(f, F.FUTURE)]
    if quick:
        fs = [f for i, f in enumerate(fs) if F.size(f) < 2 or i % 3 != 2]
    if quick:
        Uc = [('not',), ('next',), ('prev',), ('rise',), ('eventually', (0, 1)), ('always', (1, 2)), ('once', (1, 2))]
    else:
        Uc = [u for u in F.unary_ops(((0, 1), (1, 2)), ops=BF_U) if not (u[0] in ('eventually', 'always') and u[1] is None)]
    fs += [f for f in F.chains(3, Uc, F.PX) if F.has_op(f, F.FUTURE)]
    # atoms the pastifier has to rebuild: unary minus, ln, log, abs, arithmetic
    X, Y = F.X, F.Y
    ax1 = ('+', ('abs', X), F.C1)
    atoms = [('pred', '>=', ('neg', X), F.C0), ('pred', '<=', ('ln', ax1), Y), ('pred', '>=', ('log', ax1, F.C2), F.C0),
             ('pred', '>', ('+', X, ('neg', Y)), F.C0), ('neg', X), ('pred', '>=', ('sqrt', ('abs', X)), ('exp', Y)),
             ('pred', '>=', ('pow', X, F.C2), Y), ('pred', '>=', ('/', X, F.C2), ('*', Y, F.C2))]
    for a in atoms:
        fs += [a, ('eventually', (0, 1), a), ('and', ('next', a), F.PY), ('always', (1, 2), ('or', a, ('next', a)))]
    fs += [f for f in F.patterns() if F.has_op(f, F.FUTURE) and not F.is_temporal_unbounded_future(f)]
    out, seen = [], set()
    for f in fs:
        if f not in seen:
            seen.add(f)
            out.append(f)
    return out


def unit_cases(tier):
    """(formula, bound style): future-free and bounded-future formulas whose bounds are written with units"""
    px, py = F.PX, F.PY
    base = [('once', (0, 2), px), ('historically', (1, 2), px), ('since', (1, 2), px, py), ('once', (1, 1), ('historically', (0, 1), px)),
            ('eventually', (0, 2), px), ('always', (1, 2), px), ('until', (1, 2), px, py), ('and', ('eventually', (1, 2), px), ('once', (0, 1), py)),
            ('unless', (0, 1), px, py), ('historically', (0, 1), ('eventually', (0, 1), px))]
    return [(f, st) for f in base for st in UNIT_STYLES]


def params(tier):
    if tier == 'quick':
        return dict(values=(F.V3, F.V2), maxdepth=7, max_transitions=400, validate='first')
    return dict(values=(F.V3, F.V3), maxdepth=9, max_transitions=5000, validate='first')


def shards(tier):
    fs = formula_set(tier)
    if tier != 'quick':
        fs = [f for i, f in enumerate(fs) if F.size(f) < 2 or i % 2 == 0]
    per = 6 if tier == 'quick' else 2
    out = [{'formulas': [F.to_json(f) for f in fs[i:i + per]]} for i in range(0, len(fs), per)]
    uc = unit_cases(tier)
    for i in range(0, len(uc), 5):
        out.append({'unit_cases': [(F.to_json(f), st) for f, st in uc[i:i + 5]]})
    for i in range(len(modular_cases(tier))):
        out.append({'modular': i})
    ds = deep_set(tier)
    out += [{'formulas': [F.to_json(f)], 'deep': True} for f in ds]
    ls = long_set(tier)
    out += [{'formulas': [F.to_json(f) for f in ls[i:i + 2]], 'long': True} for i in range(0, len(ls), 2)]
    lu = long_unit_cases(tier)
    out += [{'long_units': [(F.to_json(f), st) for f, st in lu[i:i + 2]]} for i in range(0, len(lu), 2)]
    for i in range(len(order_formulas())):
        out.append({'orders': i})
    sib = F.sibling_formulas()
    sib = sib[::3] if tier == 'quick' else sib
    out += [{'formulas': [F.to_json(f) for f in sib[i:i + 10]], 'sibling': True} for i in range(0, len(sib), 10)]
    return out


def long_set(tier):
    d = [f for f in F.deep_formulas(BF_U, ('since', 'until', 'unless')) + F.wide_formulas(BF_U, ('since', 'until'))
         if F.has_op(f, F.FUTURE) and site({'formula': F.to_json(f), 'pastify': True}) is None]
    U = [u for u in F.unary_ops(F.I_QUICK, ops=BF_U) if not (u[0] in ('eventually', 'always') and u[1] is None)]
    one = [F.ap1(u, F.PX) for u in U if u[0] in F.FUTURE] + [('until', (1, 2), F.PX, F.PY), ('unless', (0, 2), F.PX, F.PY)]
    return (d[::8] if tier == 'quick' else d) + one + shifted_wide(tier)


def shifted_wide(tier):
    """wide past windows that pastify() has to delay because a sibling looks into the future (once[a,b] becomes once[a+d,b+d]),
    and wide past windows with begin > 0 on their own (the second sentence of the property: no future operator at all)"""
    px, py = F.PX, F.PY
    out = []
    fut = [('eventually', (0, 2), px), ('next', px), ('always', (1, 3), px)]
    for I in ((0, 7), (0, 8), (1, 9), (0, 15), (3, 19)):
        for g in fut:
            out += [('implies', g, ('once', I, py)), ('and', ('historically', I, py), g), ('or', g, ('since', I, py, px))]
        out += [('once', I, px), ('historically', I, px), ('since', I, px, py)]
    return out[::2] if tier == 'quick' else out


def long_unit_cases(tier):
    """wide windows spelled with units"""
    px, py = F.PX, F.PY
    base = [('once', (1, 9), px), ('historically', (2, 10), px), ('implies', ('eventually', (0, 2), px), ('once', (0, 8), py)),
            ('since', (1, 8), px, py), ('always', (2, 12), px)]
    return [(f, st) for f in base for st in (UNIT_STYLES[:2] if tier == 'quick' else UNIT_STYLES)]


def deep_set(tier):
    """bounds up to 7, horizons up to 12, explored over a two-letter alphabet beyond the horizon"""
    d = [f for f in F.deep_formulas(BF_U, ('since', 'until', 'unless')) if F.has_op(f, F.FUTURE) and refsem.horizon(f) <= 12
         and site({'formula': F.to_json(f), 'pastify': True}) is None]
    return d[::10] if tier == 'quick' else d[::2]


def deep_params(f, tier):
    h = int(refsem.horizon(f))
    if tier == 'quick':
        return dict(values=(F.V2, F.V2), maxdepth=h + 5, max_transitions=6000, validate='none')
    return dict(values=(F.V2, F.V2), maxdepth=h + 7, max_transitions=60000, validate='first')


def modular_cases(tier):
    """bounded-future formulas presented with named sub-formulas (shared nodes in the AST that pastify() has to rewrite once per use)"""
    from . import c09
    px, py = F.PX, F.PY
    fut = list(c09.base_formulas('quick')[1]) + [
        ('implies', px, ('eventually', (1, 2), ('not', px))),
        ('always', (0, 1), ('implies', py, ('and', px, ('eventually', (1, 2), ('not', px))))),
        ('or', ('next', ('next', px)), ('and', px, ('next', px))),
    ]
    out = []
    for f in fut:
        for subs, text, defs, top in c09.variants_any(f, 4 if tier == 'quick' else 20):
            out.append((f, subs, text))
    return out


ORDERS = {
    # final configuration (unit U, period P); the statement fixes no order for the configuration calls before the first update()
    'standard': lambda U, P, P2: [('unit', U), ('period', P), 'parse', 'pastify'],
    'period after parse': lambda U, P, P2: [('unit', U), 'parse', ('period', P), 'pastify'],
    'period after pastify': lambda U, P, P2: [('unit', U), 'parse', 'pastify', ('period', P)],
    'period changed after pastify': lambda U, P, P2: [('unit', U), ('period', P2), 'parse', 'pastify', ('period', P)],
    'period changed after parse': lambda U, P, P2: [('unit', U), ('period', P2), 'parse', ('period', P), 'pastify'],
}
ORDER_CFGS = {'s': ('s', (1, 's'), (2, 's')), 'ms': ('ms', (1, 'ms'), (1, 's'))}


class OrderedModel(c02.DtOnlineModel):
    """the pastified monitor built with the configuration calls in a given order"""

    def __init__(self, f, values, order, cfg):
        c02.DtOnlineModel.__init__(self, f, values, pastify=True, delay=int(refsem.horizon(f)), offline=False)
        self.order, self.cfg = order, cfg

    def fresh(self):
        return impl.build_steps('dt_on', self.text, self.vs, ORDERS[self.order](*ORDER_CFGS[self.cfg]))


def order_formulas():
    px, py = F.PX, F.PY
    return [('and', ('next', px), py), ('or', py, ('next', px)), ('next', ('next', px)), ('implies', ('s_next', px), ('once', (0, 1), py)),
            ('and', ('eventually', (0, 2), px), py), ('until', (1, 2), px, py), ('and', ('next', px), ('eventually', (1, 2), py)),
            ('iff', ('prev', py), ('next', px)), ('always', (0, 1), ('or', px, ('next', py)))]


def model_for(f, values, style=None):
    h = refsem.horizon(f)
    text = 'out = ' + (F.pr(f, unit_bound(style)) if style else F.pr(f))
    return c02.DtOnlineModel(f, values, text=text, pastify=True, delay=int(h), offline=False)


def run_shard(shard, tier, res):
    p = params(tier)
    mod = sys.modules[__name__]
    for fj in shard.get('formulas', []):
        f = F.from_json(fj)
        if shard.get('long'):
            c02.run_long(res, mod, f, tier, pastify=True, delay=int(refsem.horizon(f)))
            res.sample({'spec': 'out = ' + F.pr(f), 'horizon': int(refsem.horizon(f)), 'long_run_length': c02.LONG_N}, 1)
            continue
        if shard.get('deep'):
            p = deep_params(f, tier)
        if shard.get('sibling'):
            p = dict(values=(F.V3, F.V2), maxdepth=6 if tier == 'quick' else 8, max_transitions=250 if tier == 'quick' else 3000, validate='first')
        m = model_for(f, p['values'])
        st, m = c02.explore_formula(res, mod, f, p, model=m)
        res.sample({'spec': m.text, 'horizon': m.delay, 'states': st.states, 'transitions': st.transitions,
                    'fixpoint': st.fixpoint, 'max_depth': st.maxdepth}, 1)
    if 'orders' in shard:
        f = order_formulas()[shard['orders']]
        for order in ORDERS:
            for cfg in ORDER_CFGS:
                m = OrderedModel(f, p['values'], order, cfg)
                st, m = c02.explore_formula(res, mod, f, dict(p, maxdepth=6, max_transitions=300 if tier == 'quick' else 3000), model=m, extra={'order': order, 'cfg': cfg})
                res.flags['configuration_orders'] += 1
        res.sample({'spec': m.text, 'orders': list(ORDERS), 'configurations': list(ORDER_CFGS)}, 1)
    for fj, style in shard.get('long_units', []):
        f = F.from_json(fj)
        c02.run_long(res, mod, f, tier, pastify=True, delay=int(refsem.horizon(f)), text='out = ' + F.pr(f, unit_bound(style)))
        res.flags['unit_spelled'] += 1
    if 'modular' in shard:
        f, subs, text = modular_cases(tier)[shard['modular']]
        m = c02.DtOnlineModel(f, p['values'], text=text, pastify=True, delay=int(refsem.horizon(f)), subspecs=tuple(subs), offline=False)
        st, m = c02.explore_formula(res, mod, f, p, model=m, extra={'subspecs': list(subs)})
        res.flags['modular_specs'] += 1
        res.sample({'spec': m.text, 'sub_specs': list(subs), 'horizon': m.delay, 'states': st.states, 'transitions': st.transitions}, 1)
    for fj, style in shard.get('unit_cases', []):
        f = F.from_json(fj)
        m = model_for(f, p['values'], style)
        st, m = c02.explore_formula(res, mod, f, p, model=m, extra={'style': style})
        res.flags['unit_spelled'] += 1
        res.sample({'spec': m.text, 'horizon': m.delay, 'states': st.states, 'transitions': st.transitions}, 1)


def replay(case):
    if case.get('order'):
        m = OrderedModel(F.from_json(case['formula']), (F.V3, F.V2), case['order'], case['cfg'])
        obj = m.fresh()
        hist = tuple(tuple(e) for e in case['history'])
        msgs = []
        for i, e in enumerate(hist):
            msg = m.check(hist[:i + 1], m.apply(obj, hist[:i], e), obj)
            if msg and msg is not explore.PRUNE:
                msgs.append(msg)
        return msgs
    return c02.check_case(case)


def finalize(agg, outcomes, flags, tier):
    from ..runner import Broken
    if agg['nontrivial'] < 1000:
        raise Broken('vacuous: only %d checked transitions' % agg['nontrivial'])
    return {'fixpoints': flags.get('fixpoint', 0), 'bounded_searches': flags.get('no_fixpoint', 0),
            'merges_validated': flags.get('merges_validated', 0), 'unit_spelled_specs': flags.get('unit_spelled', 0),
            'canon_divergence': flags.get('canon_divergence', 0)}
