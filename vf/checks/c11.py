"""C11 - evaluation is pure: caller data untouched, repeatable, isolated, deterministic (E1 + exhaustive interleavings)."""
import copy
import hashlib
import itertools
import json
import os
import subprocess
import sys

from .. import formula as F
from .. import refsem
from .. import dref
from .. import impl
from .. import kinds
from .. import explore

ID = 'C11'
LEVEL = 'model_checking'
RULE = ('(a) argument purity: every evaluate()/update() call of the workload (4 monitor kinds, formulas with <=2 operators incl. bounded future on traces '
        'shorter than the bound, sub-specifications) is made on deep copies whose content is compared with the originals afterwards; (b) offline '
        'repeatability: evaluate(d1), evaluate(d2), evaluate(d1) on one object for ALL ordered pairs of traces up to length 3 (in every second pair the caller looks at the object between the evaluations - explain(), spec_print(), get_value(), violation counter - alternately under the default configuration and a sampling period of 500 ms); (c) isolation: ALL '
        'interleavings (merge orders) of the call sequences of two and three specification objects (<=3 calls each) that share formula texts, variable '
        'names and monitor kinds; every object must return exactly what it returns when run alone; (d) determinism: the same workload in sub-processes '
        'with PYTHONHASHSEED in {0..7} (thorough {0..63}) must produce identical result digests. One schedule = one interleaving executed on fresh objects; '
        'states/transitions count the positions of the interleaving lattice and the calls executed')
ASSUMPTIONS = ['hash seeds: only the stated subset of the 2^32 seeds is covered', 'isolation is checked for 2 and 3 objects with <= 3 calls each']

PX, PY, X, Y = F.PX, F.PY, F.X, F.Y


def purity_formulas(tier):
    I = ((0, 1), (1, 2), (0, 5)) if tier == 'quick' else F.I_FULL + ((0, 5),)
    U = F.unary_ops(I)
    B = F.binary_ops(I)
    CL = ('pred', '<=', F.C1, X)                      # constant on the left
    CM = ('pred', '>=', ('*', F.C2, X), ('-', F.C1, Y))
    fs = list(F.F(1, U, B, [(PX, PY, X), (X, Y, X), (CL, CM, X)]))
    f2 = [f for f in F.F(2, U, B, [(X, Y, X)]) if F.size(f) == 2]
    fs += f2[::5] if tier == 'quick' else f2[::2]
    return fs


def same_data(a, b):
    return explore.snapshot(a) == explore.snapshot(b) and type(a) == type(b)


def shards(tier):
    out = []
    fs = purity_formulas(tier)
    per = 25 if tier == 'quick' else 10
    for i in range(0, len(fs), per):
        out.append({'mode': 'purity', 'formulas': [F.to_json(f) for f in fs[i:i + per]]})
    for i in range(len(isolation_groups(tier))):
        out.append({'mode': 'isolation', 'i': i})
    nseeds = 8 if tier == 'quick' else 64
    for s in range(0, nseeds, 4):
        out.append({'mode': 'hashseed', 'seeds': list(range(s, s + 4))})
    return out


# ------------------------------------------------------------------------------------------- (a) + (b)
def run_purity(shard, tier, res, mod):
    for fj in shard['formulas']:
        f = F.from_json(fj)
        vs = sorted(F.fvars(f))
        text = 'out = ' + F.pr(f)
        res.formulas += 1
        traces = [F.trace_dict(t, vs) for t in F.traces(3, F.V2, len(vs))]
        # ---- discrete offline: purity and repeatability on ONE object
        k, spec = impl.outcome(impl.build, 'dt_off', text, vs)
        if k == 'ok':
            results = {}
            for i, w in enumerate(traces):
                d = dict({'time': list(range(len(w[vs[0]])))}, **{v: list(w[v]) for v in vs})
                keep = copy.deepcopy(d)
                res.evaluations += 1
                k, out = impl.outcome(spec.evaluate, d)
                case = {'mode': 'purity', 'kind': 'dt_off', 'formula': fj, 'spec': text, 'vars': vs, 'data': keep}
                if k == 'ok' and not same_data(d, keep):
                    res.violation(mod, case, 'evaluate() modified the caller\'s data set: %r became %r' % (keep, d))
                    res.outcomes['caller data modified'] += 1
                elif k == 'ok':
                    res.outcomes['pure'] += 1
                    results[i] = copy.deepcopy(out)
            # (b) d1, d2, d1 for all ordered pairs of different traces
            for i, j in itertools.permutations(range(len(traces)), 2):
                if i not in results or j not in results:
                    continue
                if (i + j) % (3 if tier == 'quick' else 2):
                    continue
                res.evaluations += 1
                d1 = dict({'time': list(range(len(traces[i][vs[0]])))}, **{v: list(traces[i][v]) for v in vs})
                d2 = dict({'time': list(range(len(traces[j][vs[0]])))}, **{v: list(traces[j][v]) for v in vs})
                # every second pair: the caller looks at the object between the evaluations (explain(), get_value(), spec_print(), the violation
                # counter), alternately under the default configuration and under a sampling period of 500 ms
                obs = (i * 7 + j) % 2 == 1
                period = (500, 'ms') if obs and (i + j) % 4 < 2 else None
                s2 = impl.build('dt_off', text, vs, period=period)
                msg = repeat_case(s2, d1, d2, scribble=(i + j) % 2 == 0, observers=obs)
                if msg:
                    if obs:
                        msg += ' (between the evaluations the caller called explain(), spec_print(), get_value() and read the violation counter%s)' % (
                            '; sampling period 500 ms' if period else '')
                    res.violation(mod, {'mode': 'repeat', 'formula': fj, 'spec': text, 'vars': vs, 'd1': d1, 'd2': d2, 'scribble': (i + j) % 2 == 0,
                                        'observers': obs, 'period': list(period) if period else None}, msg)
                    res.outcomes['not repeatable'] += 1
                else:
                    res.outcomes['repeatable'] += 1
                    res.nontrivial += 1
        # ---- discrete online purity (past formulas, and pastified bounded future)
        if F.past_only(f) or not F.is_temporal_unbounded_future(f):
            k, spec = impl.outcome(impl.build, 'dt_on', text, vs, pastify=not F.past_only(f))
            if k == 'ok':
                for w in traces[-4:]:
                    for i in range(len(w[vs[0]])):
                        arg = [[v, w[v][i]] for v in vs]
                        keep = copy.deepcopy(arg)
                        res.evaluations += 1
                        k, out = impl.outcome(spec.update, i, arg)
                        if k == 'ok' and not same_data(arg, keep):
                            res.violation(mod, {'mode': 'purity', 'kind': 'dt_on', 'formula': fj, 'spec': text, 'vars': vs, 'data': keep},
                                          'update() modified the caller\'s list: %r became %r' % (keep, arg))
        # ---- dense kinds
        if not F.has_op(f, ('prev', 's_prev', 'next', 's_next', 'rise', 'fall')):
            for kind in ('ct_off', 'ct_on'):
                if kind == 'ct_on' and not F.past_only(f):
                    continue
                k, spec = impl.outcome(impl.build, kind, text, vs)
                if k != 'ok':
                    continue
                for w in traces[-6:]:
                    sig = kinds.grid_signal(w)
                    args = [[v, [[t, x] for t, x in sig[v]]] for v in vs]
                    keep = copy.deepcopy(args)
                    res.evaluations += 1
                    fn = spec.evaluate if kind == 'ct_off' else spec.update
                    if kind == 'ct_on':
                        spec = impl.build(kind, text, vs)
                        fn = spec.update
                    k, out = impl.outcome(fn, *args)
                    if k == 'ok' and not same_data(args, keep):
                        res.violation(mod, {'mode': 'purity', 'kind': kind, 'formula': fj, 'spec': text, 'vars': vs, 'data': keep},
                                      '%s modified the caller\'s sample lists: %r became %r' % (fn.__name__, keep, args))
                        res.outcomes['caller data modified'] += 1
                    elif k == 'ok':
                        res.outcomes['pure'] += 1
                if kind == 'ct_off':
                    # (b) for the dense-time offline monitor: d1, d2, d1 on ONE object
                    sigs = [kinds.grid_signal(w) for w in traces[-6:]] + [{v: [(0.0, 2.0), (0.5, -1.0), (2.5, 2.0)] for v in vs}]
                    for i, j in itertools.permutations(range(len(sigs)), 2):
                        if (i + j) % (3 if tier == 'quick' else 1):
                            continue
                        a1 = [[v, [[t, x] for t, x in sigs[i][v]]] for v in vs]
                        a2 = [[v, [[t, x] for t, x in sigs[j][v]]] for v in vs]
                        s2 = impl.build('ct_off', text, vs)
                        res.evaluations += 1
                        msg = repeat_case(s2, a1, a2, (i + j) % 2 == 0, star=True)
                        if msg:
                            res.violation(mod, {'mode': 'repeat_dense', 'formula': fj, 'spec': text, 'vars': vs, 'd1': a1, 'd2': a2, 'scribble': (i + j) % 2 == 0},
                                          'dense ' + msg)
                            res.outcomes['not repeatable'] += 1
                        else:
                            res.outcomes['repeatable'] += 1
                            res.nontrivial += 1
        res.digest(text)
    res.sample({'spec': 'out = always[0,5] x', 'data': {'time': [0, 1], 'x': [-1.0, 2.0]}, 'check': 'data set unchanged after evaluate(); d1,d2,d1 repeatable'}, 1)


def scribble_on(x):
    """the caller owns what evaluate() returned: overwrite every number in it and append garbage"""
    if isinstance(x, list):
        for i in range(len(x)):
            if isinstance(x[i], list):
                scribble_on(x[i])
            else:
                x[i] = 99.0
        x.append([99.0, 99.0])


def observe(spec):
    """what a caller may look at between two evaluations: none of it is an operation on the data"""
    for fn in ('explain', 'spec_print'):
        if hasattr(spec, fn):
            impl.outcome(getattr(spec, fn))
    impl.outcome(spec.get_value, 'out')
    impl.outcome(lambda: spec.sampling_violation_counter)
    if hasattr(spec, 'explainer'):
        impl.outcome(lambda: dict(spec.explainer.explanations))


def repeat_case(spec, d1, d2, scribble, star=False, observers=False):
    """evaluate(d1), evaluate(d2), evaluate(d1) on one object: the third result equals the first; the first result, still held by the caller,
    is not changed by the later calls; and (scribble) whatever the caller does to the returned lists has no influence on later evaluations"""
    ev = (lambda d: impl.outcome(spec.evaluate, *copy.deepcopy(d))) if star else (lambda d: impl.outcome(spec.evaluate, copy.deepcopy(d)))
    r1 = ev(d1)
    s1 = explore.snapshot(r1)
    if observers:
        observe(spec)
    r2 = ev(d2)
    if observers:
        observe(spec)
    if explore.snapshot(r1) != s1:
        return 'the result of evaluate(d1) that the caller still holds changed from %r to %r during evaluate(d2) on the same object' % (s1, r1[1])
    if scribble and r1[0] == 'ok' and r2[0] == 'ok':
        scribble_on(r1[1])
        scribble_on(r2[1])
    r3 = ev(d1)
    if explore.snapshot(r3) != s1:
        return 'evaluate(d1) returned %r, after evaluate(d2)%s the same object returns %r for d1' % (
            s1, ' (and after the caller overwrote the lists that were returned to it)' if scribble else '', r3[1])
    return None


# ------------------------------------------------------------------------------------------- (c) isolation
def call_seq(kind, vs, variant):
    """the calls of one object: list of (method, args) descriptions"""
    if kind == 'dt_on':
        vals = [(2.0, -1.0), (-1.0, 2.0), (0.0, 0.0)] if variant == 0 else [(-1.0, -1.0), (2.0, 0.0), (2.0, 2.0)]
        if variant >= 2:   # four calls: one object sees its extreme value first, the other one last
            vals = [(2.0, -1.0), (-1.0, 2.0), (0.0, 0.0), (-1.0, -1.0)] if variant == 2 else [(-1.0, -1.0), (0.0, 0.0), (-1.0, 2.0), (2.0, 0.0)]
        if variant == 4:   # a peak followed by two lower samples: a window of one sample and a window of a thousand give different results
            vals = [(0.0, 0.0), (2.0, -1.0), (-1.0, 2.0), (-1.0, -1.0)]
        return [('update', i, [[v, vals[i][k % 2]] for k, v in enumerate(vs)]) for i in range(len(vals))]
    if kind == 'dt_off':
        traces = [{'time': [0, 1], 'x': [2.0, -1.0], 'y': [-1.0, 2.0]}, {'time': [0, 1, 2], 'x': [-1.0, -1.0, 2.0], 'y': [2.0, 0.0, 0.0]},
                  {'time': [0], 'x': [0.0], 'y': [2.0]}]
        if variant:
            traces = traces[::-1]
        return [('evaluate', {k: v for k, v in t.items() if k == 'time' or k in vs}) for t in traces]
    if kind == 'ct_on':
        sx = [[0.0, 2.0], [1.0, -1.0], [2.5, 2.0]] if variant == 0 else [[0.0, -1.0], [0.5, 2.0], [2.0, -1.0]]
        return [('update',) + tuple([v, [list(sx[i])]] for v in vs) for i in range(3)]
    sx = [[0.0, 2.0], [1.0, -1.0], [2.5, 2.0]]
    return [('evaluate',) + tuple([v, [list(p) for p in (sx if variant == 0 else sx[::-1][:1] + sx[1:])]] for v in vs) for _ in range(2)]


def isolation_groups(tier):
    """groups of (kind, spec text, vars, subspecs, pastify, variant) forced to collide on texts / names / kinds"""
    t1 = 'out = (once[0,1] (x >= 0)) since[1,2] (y <= 1)'
    t2 = 'out = (once[0,1] (x >= 0)) and (prev (y <= 1))'
    t3 = 'out = p and (prev p)'
    sub = ('p = once[0,1] (x >= 0);',)
    t4 = 'out = always[0,1] (x >= 0)'
    t5 = 'out = historically[1,2] (once[0,1] x)'
    g2 = [
        [('dt_on', t1, ['x', 'y'], (), False, 0), ('dt_on', t1, ['x', 'y'], (), False, 1)],
        [('dt_on', t1, ['x', 'y'], (), False, 0), ('dt_on', t2, ['x', 'y'], (), False, 1)],
        [('dt_on', t3, ['x'], sub, False, 0), ('dt_on', t3, ['x'], sub, False, 1)],
        [('dt_on', t4, ['x'], (), True, 0), ('dt_on', t4, ['x'], (), True, 1)],
        [('dt_off', t1, ['x', 'y'], (), False, 0), ('dt_off', t1, ['x', 'y'], (), False, 1)],
        [('dt_off', t4, ['x'], (), False, 0), ('dt_on', t4, ['x'], (), True, 0)],
        [('dt_off', t3, ['x'], sub, False, 0), ('dt_on', t3, ['x'], sub, False, 1)],
        [('ct_on', t5, ['x'], (), False, 0), ('ct_on', t5, ['x'], (), False, 1)],
        [('ct_on', t5, ['x'], (), False, 0), ('ct_off', t5, ['x'], (), False, 0)],
        [('ct_off', t4, ['x'], (), False, 0), ('ct_off', t4, ['x'], (), False, 1)],
        [('ct_on', 'out = x and (once[0,1] x)', ['x'], (), False, 0), ('dt_on', 'out = x and (once[0,1] x)', ['x'], (), False, 0)],
    ]
    t6 = 'out = (once[0,2] (x >= 0)) and (historically[1,2] (y <= 1))'
    g2 += [
        [('dt_on', t6, ['x', 'y'], (), False, 0, (1, 's')), ('dt_on', t6, ['x', 'y'], (), False, 1, (500, 'ms'))],
        [('dt_off', t6, ['x', 'y'], (), False, 0, (500, 'ms')), ('dt_on', t6, ['x', 'y'], (), False, 0, (1, 's'))],
        [('dt_off', t4.replace('[0,1]', '[0,2]'), ['x'], (), False, 0, (2, 's')), ('dt_off', t4.replace('[0,1]', '[0,2]'), ['x'], (), False, 1, (1, 's'))],
    ]
    # wide windows (an implementation that switches to another data structure above some width may share it between objects)
    for tw, past in (('out = once[0,4] x', True), ('out = historically[0,8] (x >= 0)', True), ('out = (x >= 0) since[2,7] (y <= 1)', True),
                     ('out = eventually[0,5] x', False), ('out = always[2,9] (x >= 0)', False)):
        g2.append([('dt_on', tw, ['x', 'y'] if 'y' in tw else ['x'], (), not past, 2), ('dt_on', tw, ['x', 'y'] if 'y' in tw else ['x'], (), not past, 3)])
    g2.append([('dt_on', 'out = once[1,6] x', ['x'], (), False, 2), ('dt_on', 'out = once[0,5] (x >= 0)', ['x'], (), False, 3)])
    g2.append([('dt_on', 'out = (once[0,4] x) and (once[0,5] y)', ['x', 'y'], (), False, 2), ('dt_on', 'out = historically[0,4] x', ['x'], (), False, 3)])
    # the same period NUMBER in different units, bounds with explicit units (tables keyed by the number alone would collide)
    t7, t8 = 'out = once[0,1s] (x >= 0)', 'out = eventually[0,1s] x'
    g2 += [
        [('dt_on', t7, ['x'], (), False, 2, (1, 's')), ('dt_on', t7, ['x'], (), False, 4, (1, 'ms'))],
        [('dt_on', t7, ['x'], (), False, 4, (1, 'ms')), ('dt_on', t7, ['x'], (), False, 2, (1, 's'))],
        [('dt_off', t8, ['x'], (), False, 0, (1, 's')), ('dt_off', t8, ['x'], (), False, 1, (1, 'ms'))],
        [('dt_off', t8, ['x'], (), False, 0, (1, 'ms')), ('dt_on', t7, ['x'], (), False, 2, (1, 's')), ('dt_off', t8, ['x'], (), False, 1, (1, 's'))],
    ]
    g3 = [
        [('dt_on', t1, ['x', 'y'], (), False, 0), ('dt_on', t1, ['x', 'y'], (), False, 1), ('dt_off', t1, ['x', 'y'], (), False, 0)],
        [('dt_on', t3, ['x'], sub, False, 0), ('dt_on', t3, ['x'], sub, True, 1), ('ct_on', t5, ['x'], (), False, 0)],
    ]
    if tier != 'quick':
        g3.append([('ct_on', t5, ['x'], (), False, 0), ('ct_on', t5, ['x'], (), False, 1), ('ct_off', t5, ['x'], (), False, 0)])
    return g2 + g3


def make(obj):
    kind, text, vs, subs, pastify, variant = obj[:6]
    period = obj[6] if len(obj) > 6 else None
    return impl.build(kind, text, vs, subspecs=subs, pastify=pastify, period=period)


def fresh_process_baseline(obj, seq):
    import json
    import subprocess
    import os
    env = dict(os.environ)
    r = subprocess.run([sys.executable, '-B', '-m', 'vf.alone'], input=json.dumps({'obj': list(obj), 'seq': seq}), capture_output=True, text=True,
                       cwd=os.path.dirname(os.path.dirname(os.path.dirname(os.path.abspath(__file__)))), env=env, timeout=300)
    if r.returncode != 0:
        raise RuntimeError('baseline process failed: %s' % r.stderr[-400:])
    return json.loads(r.stdout)


def do_call(spec, call):
    name = call[0]
    args = copy.deepcopy(call[1:])
    return explore.snapshot(copy.deepcopy(impl.outcome(getattr(spec, name), *args)))


def run_isolation(shard, tier, res, mod):
    group = isolation_groups(tier)[shard['i']]
    seqs = [call_seq(o[0], o[2], o[5]) for o in group]
    # isolated runs: in a fresh interpreter in which no other specification object ever existed (a baseline computed in this long-lived
    # worker would already be exposed to whatever earlier objects left behind at class or module level)
    alone = []
    for oi, (o, seq) in enumerate(zip(group, seqs)):
        base = fresh_process_baseline(o, seq)
        s = make(o)
        here = [do_call(s, c) for c in seq]
        res.evaluations += len(seq)
        if [repr(x) for x in here] != base:
            k = next(i for i, (a, b) in enumerate(zip(here, base)) if repr(a) != b)
            res.violation(mod, {'mode': 'isolation_baseline', 'group': [list(g[:3]) + [list(g[3]), g[4], g[5]] + ([list(g[6])] if len(g) > 6 else []) for g in group],
                                'object': oi, 'call': k},
                          'object %d (%s `%s`%s) call %d returns %r in a process where other specification objects were used before, and %s in a fresh interpreter'
                          % (oi, o[0], o[1], (' period %r' % (o[6],)) if len(o) > 6 else '', k + 1, here[k], base[k]))
            res.outcomes['interference (earlier objects of the process)'] += 1
        alone.append(here)
    # all merge orders
    labels = []
    for i, seq in enumerate(seqs):
        labels += [i] * len(seq)
    orders = sorted(set(itertools.permutations(labels)))
    lattice = 1
    for seq in seqs:
        lattice *= (len(seq) + 1)
    res.states += lattice
    for order in orders:
        specs = [make(o) for o in group]
        pos = [0] * len(group)
        res.traces += 1
        for who in order:
            r = do_call(specs[who], seqs[who][pos[who]])
            res.transitions += 1
            res.evaluations += 1
            if r != alone[who][pos[who]]:
                case = {'mode': 'isolation', 'group': [list(o[:3]) + [list(o[3]), o[4], o[5]] + ([list(o[6])] if len(o) > 6 else []) for o in group], 'order': list(order),
                        'object': who, 'call': pos[who]}
                res.violation(mod, case, 'object %d (%s `%s`) call %d returned %r in the interleaving %r, alone it returns %r'
                              % (who, group[who][0], group[who][1], pos[who] + 1, r, order, alone[who][pos[who]]))
                res.outcomes['interference'] += 1
                break
            pos[who] += 1
        else:
            res.outcomes['isolated'] += 1
            res.nontrivial += 1
    res.digest(shard['i'], len(orders))
    res.sample({'objects': [[o[0], o[1]] for o in group], 'interleavings': len(orders), 'calls_per_object': [len(s) for s in seqs]}, 1)


# ------------------------------------------------------------------------------------------- (d) hash seeds
WORKLOAD = r'''
import sys, json, hashlib, logging
logging.disable(logging.CRITICAL)
sys.dont_write_bytecode = True
import rtamt
out = []
def rec(x):
    out.append(repr(x))
s = rtamt.StlDiscreteTimeSpecification()
for v in ('a', 'b', 'c', 'd'):
    s.declare_var(v, 'float')
s.declare_const('k1', 'float', '1')
s.declare_const('k2', 'float', '0.5')
s.set_var_io_type('a', 'input'); s.set_var_io_type('d', 'output')
s.add_sub_spec('p = once[0,1] (a >= k1);')
s.add_sub_spec('q = (b <= k2) since[0,2] p;')
s.spec = 'out = (p and q) or always[0,1] (c + d > a) or (z >= 0)'
s.parse()
rec(s.spec_print())
d = {'time': [0, 1, 2, 3], 'a': [2.0, -1.0, 0.0, 2.0], 'b': [0.0, 2.0, -1.0, 0.0], 'c': [1.0, 1.0, -2.0, 0.0], 'd': [0.0, 3.0, 1.0, -1.0], 'z': [-1.0, -2.0, 0.5, -3.0]}
rec(s.evaluate(d))
for n in ('p', 'q', 'out', 'a'):
    rec(s.get_value(n))
o = rtamt.StlDiscreteTimeOnlineSpecification()
for v in ('a', 'b', 'c', 'd', 'z'):
    o.declare_var(v, 'float')
o.declare_const('k1', 'float', '1')
o.add_sub_spec('p = once[0,1] (a >= k1);')
o.spec = 'out = (p and (b <= 0)) or eventually[0,2] (c + d > a) or (prev z >= 0)'
o.parse(); o.pastify()
rec(o.spec_print())
for i in range(4):
    rec(o.update(i, [(v, d[v][i]) for v in ('z', 'd', 'c', 'b', 'a')]))
    rec(o.get_value('p'))
c = rtamt.StlDenseTimeSpecification()
for v in ('a', 'b', 'c'):
    c.declare_var(v, 'float')
c.spec = 'out = ((a >= 0) since[0,1] (b <= 1)) and once[1,2] (c > a)'
c.parse()
rec(c.evaluate(['a', [[0, 1.0], [1.5, -1.0], [3, 2.0]]], ['b', [[0, 2.0], [1, 0.0], [3, 0.0]]], ['c', [[0, 0.0], [0.5, 3.0], [3, 1.0]]]))
e = rtamt.StlDiscreteTimeOfflineSpecification()
for v in ('a', 'b', 'c'):
    e.declare_var(v, 'float')
e.spec = 'out = (always[0,1] a) implies (b or eventually[1,2] c)'
e.parse(); e.evaluate({'time': [0, 1, 2], 'a': [1.0, 1.0, -1.0], 'b': [-1.0, 1.0, 1.0], 'c': [-1.0, -1.0, -1.0]}); e.explain()
rec(sorted((str(k), v) for k, v in e.explainer.explanations.items() if isinstance(k, str)))
print(hashlib.sha1('\n'.join(out).encode()).hexdigest())
print(json.dumps(out))
'''


def run_workload(seed):
    env = dict(os.environ, PYTHONHASHSEED=str(seed), PYTHONDONTWRITEBYTECODE='1')
    if os.environ.get('VERIF_REPO'):
        env['PYTHONPATH'] = os.environ['VERIF_REPO']
    p = subprocess.run([sys.executable, '-B', '-c', WORKLOAD], env=env, capture_output=True, text=True, timeout=300)
    if p.returncode != 0:
        return None, p.stderr[-800:]
    lines = p.stdout.strip().split('\n')
    return lines[-2], lines[-1]


_REF = {}


def _raised(msg):
    lines = [l for l in (msg or '').strip().split('\n') if l.strip()]
    return 'raised ' + (lines[-1].strip() if lines else '?')


def run_hashseed(shard, tier, res, mod):
    ref, ref_out = run_workload(0)
    res.evaluations += 1
    ref_key = ref if ref is not None else _raised(ref_out)
    for seed in shard['seeds']:
        res.evaluations += 1
        res.traces += 1
        dg, out = run_workload(seed)
        key = dg if dg is not None else _raised(out)
        if key != ref_key:
            if dg is None or ref is None:
                diff = '%s under PYTHONHASHSEED=0, %s under PYTHONHASHSEED=%d' % (ref_key[:300], key[:300], seed)
            else:
                a, b = json.loads(ref_out), json.loads(out)
                diff = repr([(x, y) for x, y in zip(a, b) if x != y][:1])
            res.violation(mod, {'mode': 'hashseed', 'seed': seed}, 'results differ between PYTHONHASHSEED=0 and %d: %s' % (seed, diff))
            res.outcomes['seed dependent'] += 1
        elif dg is None:
            # the workload fails in the same way under both seeds: nothing about hash seeds, the check itself is unusable
            res.flags['harness_error'] += 1
            res.caps.append('harness error: workload failed under PYTHONHASHSEED=0 and %d: %s' % (seed, (out or '')[-600:]))
        else:
            res.outcomes['seed independent'] += 1
            res.nontrivial += 1
        res.digest(seed, key)
    res.sample({'hash_seeds': shard['seeds'], 'workload_digest': ref_key}, 1)


def run_shard(shard, tier, res):
    mod = sys.modules[__name__]
    {'purity': run_purity, 'isolation': run_isolation, 'hashseed': run_hashseed}[shard['mode']](shard, tier, res, mod)


def replay(case):
    mode = case['mode']
    if mode == 'purity' and case['kind'] == 'dt_off':
        spec = impl.build('dt_off', case['spec'], case['vars'])
        d = copy.deepcopy(case['data'])
        impl.outcome(spec.evaluate, d)
        return [] if same_data(d, case['data']) else ['evaluate() modified the caller\'s data set: %r became %r' % (case['data'], d)]
    if mode == 'repeat_dense':
        s2 = impl.build('ct_off', case['spec'], case['vars'])
        m = repeat_case(s2, case['d1'], case['d2'], case.get('scribble', False), star=True)
        return ['dense ' + m] if m else []
    if mode == 'repeat':
        s2 = impl.build('dt_off', case['spec'], case['vars'], period=tuple(case['period']) if case.get('period') else None)
        m = repeat_case(s2, case['d1'], case['d2'], case.get('scribble', False), observers=case.get('observers', False))
        return [m] if m else []
    if mode == 'hashseed':
        a, ao = run_workload(0)
        b, bo = run_workload(case['seed'])
        a = a if a is not None else _raised(ao)
        b = b if b is not None else _raised(bo)
        return [] if a == b else ['outcome differs for seed %d: %s vs %s' % (case['seed'], a[:200], b[:200])]
    if mode == 'isolation_baseline':
        group = [tuple(o[:3]) + (tuple(o[3]), o[4], o[5]) + ((tuple(o[6]),) if len(o) > 6 else ()) for o in case['group']]
        seqs = [call_seq(o[0], o[2], o[5]) for o in group]
        for oi, (o, seq) in enumerate(zip(group, seqs)):   # the objects of the group one after the other in this process
            base = fresh_process_baseline(o, seq)
            s = make(o)
            here = [repr(do_call(s, c)) for c in seq]
            if here != base:
                return ['object %d returns %r after the other objects of the group were used in the process, %r in a fresh interpreter' % (oi, here, base)]
        return []
    if mode == 'isolation':
        group = [tuple(o[:3]) + (tuple(o[3]), o[4], o[5]) + ((tuple(o[6]),) if len(o) > 6 else ()) for o in case['group']]
        seqs = [call_seq(o[0], o[2], o[5]) for o in group]
        alone = []
        for o, seq in zip(group, seqs):
            s = make(o)
            alone.append([do_call(s, c) for c in seq])
        specs = [make(o) for o in group]
        pos = [0] * len(group)
        for who in case['order']:
            r = do_call(specs[who], seqs[who][pos[who]])
            if r != alone[who][pos[who]]:
                return ['object %d call %d returned %r, alone %r' % (who, pos[who] + 1, r, alone[who][pos[who]])]
            pos[who] += 1
        return []
    return []


def finalize(agg, outcomes, flags, tier):
    from ..runner import Broken
    for k in ('pure', 'repeatable', 'isolated', 'seed independent'):
        if not outcomes.get(k):
            raise Broken('vacuous: no %r outcome' % k)
    return {'interleavings': outcomes.get('isolated', 0), 'hash_seeds': outcomes.get('seed independent', 0),
            'purity_calls': outcomes.get('pure', 0), 'repeat_triples': outcomes.get('repeatable', 0)}
