"""C05 - dense-time online output does not depend on the chunking and equals the offline robustness (engine E2)."""
import copy
import itertools
import sys

from .. import formula as F
from .. import refsem
from .. import dref
from .. import impl
from .. import explore

ID = 'C05'
LEVEL = 'model_checking'
RULE = ('per (formula, signal set): BFS over ALL schedules, a schedule being a sequence of update() calls each delivering the next '
        'c_v >= 0 samples of every variable (not all zero); one transition = one real update() on a freshly parsed monitor replayed from '
        'the schedule prefix; states merged on (delivered counts, object-graph dump incl. last emitted sample), merges validated; invariant '
        'on every transition: emitted time-stamps never decrease and the concatenated output, read as a step function, equals the dense '
        'reference (shifted by the horizon after pastify) at every grid time it covers; coverage (how far the output reaches) is not constrained; '
        'long layer: 70/71-sample signals, every schedule of at most two calls whose first call delivers (c_x, c_y) with c_v from a cut alphabet '
        '(quick: 12 cuts around the 64th sample and the ends; thorough: every fourth c_v in 0..71 plus those); '
        'presentations of the same schedules: variables without new samples left out of the call; and a caller that keeps one list and one set of [t, v] objects per '
        'variable, refills them in place for every call and overwrites the list update() returned once it has read it; '
        'staircase layer: windows of 3-5 time units over signals that run through ALL orders of five distinct levels (quick: every third order), all schedules; '
        'time-axis layer: formulas without bounded operators on the same signal sets with the time-stamps mapped to T0 + d*t for (T0, d) in {(1e6, 2^-11), (1.7e9, 1), (0, 2^-20), (2^40, 1)} '
        '(large offsets, tiny spacings, all exactly representable), all schedules, output times mapped back')
ASSUMPTIONS = ['signals: samples on the half-unit grid at fixed time sets, values in {-1,2}; formulas <= 2 operators (past, and pastified bounded future without until)',
               'reference = vf/dref.py on the complete signal (past formulas do not depend on later input)']

PAST_U = ('not', 'once', 'historically')
PAST_B = ('and', 'or', 'implies', 'iff', 'xor', 'since')

# the third time set of each variable starts at t0 = 1 (a trace that does not start at time 0)
TIMES_X = ((0.0, 0.5, 1.5, 2.0), (0.0, 1.0, 2.0, 3.0), (1.0, 2.0, 2.5, 3.5))
TIMES_Y = ((0.0, 1.0, 2.0), (0.0, 1.5, 2.0), (1.0, 2.5, 3.5))


def site(case):
    """open finding (online analogue of site:C04-nonzero-start-bounded): data set starting at t0 > 0 and a bounded temporal operator"""
    try:
        f = F.from_json(case['formula'])
        t0 = min(s[0][0] for s in case['signals'].values())
    except Exception:
        return None
    # only where the precise description of the defect (vf/dref.evaluate_shifted) is not available - i.e. after pastify();
    # everywhere else ScheduleModel itself separates the documented behaviour from any other deviation
    if t0 > 0 and case.get('pastify') and any(F.interval(g) is not None for g in F.subforms(f)):
        return 'C05-nonzero-start-bounded'
    return None


class ScheduleModel(object):
    def __init__(self, f, text, vs, signals, pastify=False):
        self.f = f
        self.text = text
        self.vs = vs
        self.signals = signals          # {var: [(t, v), ...]}
        self.n = [len(signals[v]) for v in vs]
        self.pastify = pastify
        self.h = refsem.horizon(f) if pastify else 0
        self.t0 = min(s[0][0] for s in signals.values())
        self.tend = max(s[-1][0] for s in signals.values())
        self.times = dref.query_times(self.t0, self.tend + self.h)
        self.ref = dict(zip(self.times, dref.evaluate(f, signals, self.times, selfcheck=True)))
        self.nontrivial = 0
        self.omit_empty = False
        self.reuse_buffers = False   # True: the caller keeps one list and one set of [t, v] pair objects per variable, refills them in place for every
        #                              call, and overwrites the list that update() returned to it once it has read it
        self.exact = False
        self.warp = None        # (T0, d): the monitor is fed the time-stamps T0 + d*t (exact in binary floating point) and its output times are mapped back
        self.outputs = set()
        # data sets that start at t0 > 0: the unrepaired monitor is documented (open finding) to behave like the shifted-start
        # variant; it is used to tell that defect apart from every other deviation
        self.variant = None
        self.known_hits = 0
        if self.t0 > 0 and not pastify and any(F.interval(g) is not None for g in F.subforms(f)):
            try:
                self.variant = dict(zip(self.times, dref.evaluate_shifted(f, signals, self.times)))
            except ValueError:
                self.variant = None

    def fresh(self):
        s = impl.build('ct_on', self.text, self.vs, pastify=self.pastify)
        s._vf_last = None
        s._vf_msg = None
        s._vf_compared = False
        s._vf_buf = {v: [] for v in self.vs}
        s._vf_pool = {v: [[0.0, 0.0] for _ in range(max(self.n) + 1)] for v in self.vs}
        return s

    def pos(self, hist):
        return [sum(st[i] for st in hist) for i in range(len(self.vs))]

    def enabled(self, hist):
        p = self.pos(hist)
        return [st for st in itertools.product(*[range(0, self.n[i] - p[i] + 1) for i in range(len(self.vs))]) if any(st)]

    def apply(self, obj, hist, step):
        p = self.pos(hist)
        batches = {v: self.signals[v][p[i]:p[i] + step[i]] for i, v in enumerate(self.vs)}
        if self.omit_empty:
            # a variable for which nothing new arrived is not mentioned in the call at all (instead of being passed with an empty list)
            # (only once the variable has received samples in an earlier call: a first call that does not mention a variable at all is
            # not covered by the statement)
            batches = {v: b for i, (v, b) in enumerate(batches.items()) if b or p[i] == 0}
        if self.warp:
            T0, d = self.warp
            batches = {v: [(T0 + d * t, x) for t, x in b] for v, b in batches.items()}
        if self.reuse_buffers:
            args = []
            for v, b in batches.items():
                pairs = obj._vf_pool[v][:len(b)]
                for pair, smp in zip(pairs, b):
                    pair[0], pair[1] = smp[0], smp[1]
                obj._vf_buf[v][:] = pairs
                args.append([v, obj._vf_buf[v]])
            out = impl.outcome(obj.update, *args)
            if out[0] == 'ok':
                kept = copy.deepcopy(out[1])
                if isinstance(out[1], list):       # the caller post-processes what it was given, in place
                    for smp in out[1]:
                        if isinstance(smp, list) and len(smp) == 2:
                            smp[1] = 12345.0
                    out[1].append([1e9, 12345.0])
                out = ('ok', kept)
        else:
            out = impl.outcome(impl.ct_update, obj, batches)
            if out[0] == 'ok':
                out = ('ok', copy.deepcopy(out[1]))
        if self.warp and out[0] == 'ok' and isinstance(out[1], list):
            T0, d = self.warp
            out = ('ok', [[(q[0] - T0) / d, q[1]] if isinstance(q, (list, tuple)) and len(q) == 2 else q for q in out[1]])
        self._compared = False
        obj._vf_msg = self.judge(obj, out)
        obj._vf_compared = self._compared
        return out

    def judge(self, obj, out):
        kind, val = out
        if kind != 'ok':
            return 'update() raised %s' % (val,)
        if not isinstance(val, list):
            return 'update() returned %r' % (val,)
        last = obj._vf_last
        for smp in val:
            if not (isinstance(smp, (list, tuple)) and len(smp) == 2):
                return 'update() returned a malformed sample %r' % (smp,)
            if last is not None and smp[0] < last[0]:
                return 'time-stamps decrease: %r after %r' % (smp, last)
            # the previous sample is held on [last_t, smp_t); compare on the grid, then the new sample at its own time
            if last is not None:
                for t in self.times:
                    if last[0] <= t < smp[0]:
                        m = self.cmp(t, last[1])
                        if m:
                            return m
            last = [smp[0], smp[1]]
        if last is not None and last[0] in self.ref_times():
            m = self.cmp(last[0], last[1])
            if m:
                return m
        obj._vf_last = last
        return None

    def ref_times(self):
        return self.ref

    def cmp(self, t, v):
        tt = t - self.h
        if tt < self.t0 or tt not in self.ref:
            return None
        r = self.ref[tt]
        if not ((v == r) if self.exact and v is not None else refsem.same(v, r)):
            if self.variant is not None and self.variant.get(tt) is not None and refsem.same(v, self.variant[tt]):
                self.known_hits += 1      # exactly the documented missing-prefix behaviour: counted as known finding, exploration goes on
                return None
            return 'output at t=%r is %r, dense reference at t%s is %r%s' % (
                t, v, '-%s' % self.h if self.h else '', r,
                '' if self.variant is None else ' (and the documented missing-prefix behaviour would give %r)' % (self.variant.get(tt),))
        self._compared = True
        return None

    def implkey(self, obj):
        return explore.snapshot(obj, ())

    def refkey(self, hist):
        return tuple(self.pos(hist))

    def check(self, hist, out, obj):
        if obj._vf_msg is None and obj._vf_compared:
            self.nontrivial += 1   # a transition whose emitted samples were compared with the reference
        return obj._vf_msg


class TwoCallModel(ScheduleModel):
    """long signals (about 70 samples per variable): the schedules are all pairs of calls - the first delivers (c_x, c_y) samples
    with every c_v from CUTS, the second the rest - plus the single call that delivers everything"""
    cuts = None

    def enabled(self, hist):
        p = self.pos(hist)
        rest = tuple(self.n[i] - p[i] for i in range(len(self.vs)))
        if hist:
            return [rest] if any(rest) else []
        return [st for st in itertools.product(*[[c for c in self.cuts if c <= self.n[i]] for i in range(len(self.vs))]) if any(st)]


LONG_CUTS_QUICK = (0, 1, 2, 32, 63, 64, 65, 66, 67, 69, 70, 71)


def long_formulas():
    X, Y = F.X, F.Y
    return [(('and', X, Y), False), (('and', ('once', (0, 2), X), Y), False), (('since', (0, 3), X, Y), False),
            (('since', None, Y, X), False), (('historically', (1, 2), ('or', X, Y)), False), (('implies', Y, ('once', (1, 3), X)), False),
            (('pred', '>=', ('+', X, Y), F.C1), False), (('and', ('eventually', (0, 2), X), Y), True), (('once', (0, 2), X), False)]


def long_signal_sets():
    """two variables with 70 and 71 samples (both orientations), values chosen so that every sample around the 64th matters"""
    def times(n, half):
        return [float(k) + (0.5 if (half and k % 3 == 1) else 0.0) for k in range(n)]
    pats = {'p3': lambda k: 2.0 if k % 3 == 0 else -1.0, 'p2': lambda k: -1.0 if k % 2 else 2.0,
            'late': lambda k: 2.0 if k in (64, 66, 69) else -1.0, 'alt': lambda k: -1.0 if k in (63, 65, 67, 70) else 2.0}
    out = []
    for nx, ny in ((70, 71), (71, 70)):
        for px, py, half in (('p3', 'p2', False), ('late', 'alt', True), ('alt', 'p3', False)):
            out.append({'x': tuple((t, pats[px](k)) for k, t in enumerate(times(nx, False))),
                        'y': tuple((t, pats[py](k)) for k, t in enumerate(times(ny, half)))})
    return out


BIG = 1e9


def big_formulas():
    X, Y = F.X, F.Y
    s = ('+', X, Y)
    p = ('pred', '<=', s, ('const', 2 * BIG + 1.5))
    q = ('pred', '>', Y, F.C0)
    return [s, p, ('and', X, Y), ('or', X, s), ('once', (0, 1), s), ('historically', (1, 2), s), ('since', None, p, q), ('since', (0, 1), X, s),
            ('once', None, X), ('implies', q, ('historically', (0, 1), p)), ('pred', '>=', X, Y), ('-', X, Y)]


def big_signal_sets(tier):
    out = []
    for tx, ty in ((TIMES_X[0], TIMES_Y[0]), (TIMES_X[1], TIMES_Y[1]))[:1 if tier == 'quick' else 2]:
        sets = []
        for vx in itertools.product((BIG, BIG + 1.0, BIG + 2.0), repeat=len(tx)):
            for vy in itertools.product((0.0, BIG), repeat=len(ty)):
                sets.append({'x': tuple(zip(tx, vx)), 'y': tuple(zip(ty, vy))})
        out += sets[7::(108 if tier == 'quick' else 5)]
    return out


def arith_formulas():
    """every arithmetic operation of the dense-time online monitor over two unaligned variables"""
    X, Y = F.X, F.Y
    ts = [(b, X, Y) for b in F.ARITH2 + F.ARITHF2] + [(b, Y, ('+', X, F.C1)) for b in ('-', '/', 'pow', 'log')] + [(u, X) for u in F.ARITH1] + \
         [(u, ('-', X, Y)) for u in ('abs', 'neg', 'exp')] + [('sqrt', ('+', X, Y)), ('ln', ('*', X, Y))]
    fs = [('pred', '>=', t, F.C1) for t in ts]
    return fs + [('once', (0, 1), fs[0]), ('historically', (1, 2), fs[4]), ('since', (0, 1), fs[3], ('pred', '<=', Y, F.C1))]


def arith_signal_sets(tier):
    out = []
    for tx, ty in ((TIMES_X[0], TIMES_Y[0]), (TIMES_X[1], TIMES_Y[1])):
        sets = []
        for vx in itertools.product((0.5, 2.0), repeat=len(tx)):
            for vy in itertools.product((0.5, 4.0), repeat=len(ty)):
                sets.append({'x': tuple(zip(tx, vx)), 'y': tuple(zip(ty, vy))})
        out += sets[3::(32 if tier == 'quick' else 4)]
    return out


def int_formulas():
    I = ((0, 1), (1, 2))
    fs = [f for f in F.F(1, F.unary_ops(I, ops=PAST_U), F.binary_ops(I, ops=PAST_B, unless=False), [(F.PX, F.PY, F.X)]) if F.size(f) >= 1]
    return fs + [('pred', '>', ('+', F.X, F.Y), F.C1), ('pred', '==', F.X, F.Y), ('pred', '<=', ('/', F.X, F.C2), F.Y)]


def int_signal_sets(nvars, tier):
    """time-stamps and values are Python ints"""
    tx, ty = (0, 1, 2, 4), (0, 2, 3)
    out = []
    for vx in itertools.product((-1, 2), repeat=len(tx)):
        if nvars == 1:
            out.append({'x': tuple(zip(tx, vx))})
            continue
        for vy in itertools.product((-1, 2), repeat=len(ty)):
            out.append({'x': tuple(zip(tx, vx)), 'y': tuple(zip(ty, vy))})
    return out[1::(24 if tier == 'quick' else 2)] if nvars == 2 else out[::(4 if tier == 'quick' else 1)]


def formula_set(tier):
    quick = tier == 'quick'
    I = ((0, 1), (1, 2)) if quick else F.I_QUICK
    U = F.unary_ops(I, ops=PAST_U)
    B = F.binary_ops(I, ops=PAST_B, unless=False)
    leaf = [(F.X, F.Y, F.X)] if quick else [(F.X, F.Y, F.X), (F.PX, F.PY, F.X)]
    past = [(f, False) for f in F.F(2, U, B, leaf) if F.size(f) >= 1]
    # pastified bounded future (no until: its rewriting, precedes, is not supported by the dense online monitor)
    UF = [u for u in F.unary_ops(I, ops=('not', 'once', 'historically', 'eventually', 'always')) if not (u[0] in ('eventually', 'always') and u[1] is None)]
    BF = F.binary_ops(I, ops=('and', 'or', 'since'), unless=False)
    fut = [(f, True) for f in F.F(2, UF, BF, [(F.X, F.Y, F.X)]) if F.has_op(f, F.FUTURE)
           and not any(g[0] in ('once', 'historically', 'since') and any(refsem.horizon(c) > 0 for c in F.children(g)) for g in F.subforms(f))]
    if quick:
        past = [pf for pf in past if not (F.size(pf[0]) == 2 and pf[0][0] in ('iff', 'xor', 'implies'))]
        fut = fut[::3]
    return past + fut


def signal_sets(nvars, tier):
    quick = tier == 'quick'
    out = []
    if nvars == 1:
        for ts in TIMES_X:
            sets = [{'x': tuple(zip(ts, vals))} for vals in itertools.product(F.V2, repeat=len(ts))]
            out += sets[3::8] if quick else sets
        return out
    for tx in TIMES_X:
        for ty in TIMES_Y:
            if tx[0] != ty[0]:
                continue    # all variables of one data set start at the same time
            sets = []
            for vx in itertools.product(F.V2, repeat=len(tx)):
                for vy in itertools.product(F.V2, repeat=len(ty)):
                    sets.append({'x': tuple(zip(tx, vx)), 'y': tuple(zip(ty, vy))})
            out += sets[37::128] if quick else sets[5::96]
    if quick:
        out = out[:2] + out[3:]     # four of the five time-set combinations (the one that starts at t0 = 1 is kept)
    return out


def shards(tier):
    fs = formula_set(tier)
    per = 1
    out = [{'formulas': [(F.to_json(f), p) for f, p in fs[i:i + per]]} for i in range(0, len(fs), per)]
    deep = [f for f in F.deep_formulas(PAST_U, ('since',), future=False) if not F.has_op(f, ('prev', 'rise'))]
    deep = deep[::4] if tier == 'quick' else deep
    out += [{'formulas': [(F.to_json(f), False)], 'deep': True} for f in deep]
    out += [{'formulas': [(F.to_json(f), p)], 'long': True} for f, p in long_formulas()]
    out += [{'formulas': [(F.to_json(f), False)], 'big': True} for f in big_formulas()]
    it = int_formulas()
    out += [{'formulas': [(F.to_json(f), False) for f in it[i:i + 3]], 'ints': True} for i in range(0, len(it), 3)]
    ar = arith_formulas()
    out += [{'formulas': [(F.to_json(f), False) for f in ar[i:i + 2]], 'arith': True} for i in range(0, len(ar), 2)]
    out += [{'formulas': [(F.to_json(f), False)], 'stairs': True} for f in stair_formulas()]
    wf = warp_formulas(tier)
    out += [{'formulas': [(F.to_json(f), False) for f in wf[i:i + 2]], 'warp': True} for i in range(0, len(wf), 2)]
    return out


def stair_formulas():
    """windows of 3-5 time units over one variable"""
    X = F.X
    return [('once', (0, 4), X), ('historically', (0, 4), X), ('once', (1, 4), X), ('historically', (1, 5), X), ('once', (0, 3), ('historically', (0, 2), X)),
            ('since', (0, 4), ('pred', '>=', X, F.C2), ('pred', '<=', X, ('const', 3.0)))]


def stair_signal_sets(tier):
    """staircases: ALL orders of five distinct levels on the unit grid (runs of several falling / rising segments inside one window, followed
    by a sample that dominates them), closed by a sixth sample"""
    perms = list(itertools.permutations((1.0, 2.0, 3.0, 4.0, 5.0)))
    if tier == 'quick':
        perms = perms[::3]
    return [{'x': tuple((float(i), v) for i, v in enumerate(p + (p[0],)))} for p in perms]


# time-stamps with a large offset and / or a tiny spacing, all exactly representable: T0 + d * t for the half-grid times t
WARPS = ((1000000.0, 2.0 ** -11), (1.7e9, 1.0), (0.0, 2.0 ** -20), (2.0 ** 40, 1.0))


def warp_formulas(tier):
    """formulas without bounded operators (their meaning does not change under an order-preserving change of the time axis)"""
    fs = [f for f, p in formula_set(tier) if not p and not any(F.interval(g) is not None for g in F.subforms(f))]
    fs += [('-', F.X, F.Y), ('since', None, F.PX, F.PY), ('and', ('once', None, F.PX), ('historically', None, F.PY)), ('xor', F.X, F.Y)]
    fs = list(dict.fromkeys(fs))
    return fs[::3] if tier == 'quick' else fs


def deep_signal_sets(nvars, tier):
    """7 samples on [0,6] (one variable: all 64 cuts x their alignments are explored by the schedule BFS)"""
    tx = (0.0, 1.0, 2.0, 3.5, 4.0, 5.0, 6.0)
    ty = (0.0, 2.0, 4.5, 6.0)
    vals = ((2.0, -1.0, -1.0, 2.0, -1.0, -1.0, 2.0), (-1.0, 2.0, 2.0, -1.0, -1.0, 2.0, -1.0), (-1.0, -1.0, 2.0, -1.0, 2.0, 2.0, 2.0))
    if tier != 'quick':
        vals = tuple(itertools.product(F.V2, repeat=7))[::18]
    if nvars == 1:
        return [{'x': tuple(zip(tx, v))} for v in vals]
    # two variables: 5 + 3 samples keep the schedule space (all alignments of all cuts) within a few thousand transitions
    tx2 = (0.0, 1.0, 3.5, 5.0, 6.0)
    ty2 = (0.0, 2.0, 6.0)
    return [{'x': tuple(zip(tx2, v[:5])), 'y': tuple(zip(ty2, (2.0, -1.0, 2.0)))} for v in vals[:2 if tier == 'quick' else 6]]


def run_shard(shard, tier, res):
    mod = sys.modules[__name__]
    for fj, pastify in shard['formulas']:
        f = F.from_json(fj)
        vs = sorted(F.fvars(f))
        text = 'out = ' + F.pr(f)
        res.formulas += 1
        for si, sig in enumerate(stair_signal_sets(tier) if shard.get('stairs') else long_signal_sets() if shard.get('long') else arith_signal_sets(tier) if shard.get('arith') else int_signal_sets(len(vs), tier) if shard.get('ints') else big_signal_sets(tier) if shard.get('big')
                    else deep_signal_sets(len(vs), tier) if shard.get('deep') else signal_sets(len(vs), tier)):
            sig = {v: sig['x' if (v == 'y' and len(vs) == 1) else v] for v in vs}
            if shard.get('long'):
                m = TwoCallModel(f, text, vs, sig, pastify)
                m.cuts = LONG_CUTS_QUICK if tier == 'quick' else tuple(sorted(set(range(0, 72, 4)) | set(LONG_CUTS_QUICK)))
            else:
                try:
                    m = ScheduleModel(f, text, vs, sig, pastify)
                except refsem.DomainError:
                    continue      # the data leave the domain of an arithmetic function
                m.exact = bool(shard.get('big'))
                if shard.get('warp'):
                    m.warp = WARPS[(si + res.formulas) % len(WARPS)]
                    res.flags['searches_on_offset_or_tiny_time_axes'] += 1

            def on_violation(hist, msg, m=m, sig=sig):
                case = {'formula': fj, 'spec': text, 'vars': vs, 'pastify': pastify, 'exact': m.exact,
                        'signals': {v: [list(p) for p in s] for v, s in sig.items()}, 'schedule': [list(st) for st in hist]}
                if m.warp:
                    case['warp'] = list(m.warp)
                    msg += ' (time axis: the monitor receives the time-stamps %r + %r * t)' % m.warp
                res.violation(mod, case, msg)
                res.outcomes[msg.split(' is ')[0][:24]] += 1
            st = explore.bfs(m, 64, 20000 if tier == 'quick' else 200000, 'first' if tier == 'quick' else 'all', on_violation)
            if len(vs) > 1 and not shard.get('long') and (si % (4 if tier == 'quick' else 2) == 0):
                # the same schedules with variables that receive nothing left out of the call
                m2 = ScheduleModel(f, text, vs, sig, pastify)
                m2.omit_empty, m2.exact = True, m.exact

                def on_violation2(hist, msg, sig=sig):
                    case = {'formula': fj, 'spec': text, 'vars': vs, 'pastify': pastify, 'exact': m2.exact, 'omit_empty': True,
                            'signals': {v: [list(p) for p in s] for v, s in sig.items()}, 'schedule': [list(st_) for st_ in hist]}
                    res.violation(mod, case, msg + ' (variables without new samples left out of the call)')
                    res.outcomes['omitted variable'] += 1
                st2 = explore.bfs(m2, 64, 20000 if tier == 'quick' else 200000, 'first', on_violation2)
                res.states += st2.states
                res.transitions += st2.transitions
                res.evaluations += st2.transitions
                res.nontrivial += m2.nontrivial
                res.flags['fixpoint' if st2.fixpoint else 'no_fixpoint'] += 1
            if not shard.get('long') and (si % (4 if tier == 'quick' else 2) == 1):
                # the same schedules presented by a caller that re-uses its buffers and overwrites the results it was handed
                try:
                    m3 = ScheduleModel(f, text, vs, sig, pastify)
                except refsem.DomainError:
                    m3 = None
                if m3 is not None:
                    m3.reuse_buffers, m3.exact = True, m.exact

                    def on_violation3(hist, msg, sig=sig, m3=m3):
                        case = {'formula': fj, 'spec': text, 'vars': vs, 'pastify': pastify, 'exact': m3.exact, 'reuse_buffers': True,
                                'signals': {v: [list(p) for p in s] for v, s in sig.items()}, 'schedule': [list(st_) for st_ in hist]}
                        res.violation(mod, case, msg + ' (the caller re-uses one list and one set of [t, v] objects per variable and overwrites the returned lists)')
                        res.outcomes['re-used buffers'] += 1
                    st3 = explore.bfs(m3, 64, 20000 if tier == 'quick' else 200000, 'first', on_violation3)
                    res.states += st3.states
                    res.transitions += st3.transitions
                    res.evaluations += st3.transitions
                    res.nontrivial += m3.nontrivial
                    res.flags['reused_buffer_searches'] += 1
                    if m3.known_hits:
                        res.known['site:C05-nonzero-start-bounded'] += m3.known_hits
                    res.flags['fixpoint' if st3.fixpoint else 'no_fixpoint'] += 1
            res.states += st.states
            res.transitions += st.transitions
            res.traces += st.executions
            res.evaluations += st.transitions
            res.nontrivial += m.nontrivial
            if m.known_hits:
                res.known['site:C05-nonzero-start-bounded'] += m.known_hits
            res.flags['fixpoint' if st.fixpoint else 'no_fixpoint'] += 1
            res.flags['merges_validated'] += st.merges_validated
            if st.canon_divergence:
                res.flags['canon_divergence'] += st.canon_divergence
            res.outcomes['closed' if st.fixpoint else 'capped'] += 1
            res.digest(text, sorted(sig.items()), st.states, st.transitions)
        res.sample({'spec': text, 'pastify': pastify, 'signals': {v: [list(p) for p in s] for v, s in sig.items()},
                    'states': st.states, 'transitions': st.transitions}, 1)


def check_case(case):
    f = F.from_json(case['formula'])
    sig = {v: [tuple(p) for p in s] for v, s in case['signals'].items()}
    m = ScheduleModel(f, case['spec'], case['vars'], sig, case.get('pastify', False))   # replay follows the recorded schedule
    m.exact = bool(case.get('exact'))
    m.omit_empty = bool(case.get('omit_empty'))
    m.reuse_buffers = bool(case.get('reuse_buffers'))
    m.warp = tuple(case['warp']) if case.get('warp') else None
    obj = m.fresh()
    hist = tuple(tuple(s) for s in case['schedule'])
    msgs = []
    for i, st in enumerate(hist):
        out = m.apply(obj, hist[:i], st)
        if obj._vf_msg:
            msgs.append('update %d %s: %s' % (i + 1, out, obj._vf_msg))
            break
    return msgs


def replay(case):
    return check_case(case)


def finalize(agg, outcomes, flags, tier):
    from ..runner import Broken
    if agg['nontrivial'] < 1000:
        raise Broken('vacuous: only %d compared output values' % agg['nontrivial'])
    if flags.get('no_fixpoint'):
        raise Broken('%d schedule searches hit a cap' % flags['no_fixpoint'])
    return {'schedule_spaces_closed': flags.get('fixpoint', 0), 'merges_validated': flags.get('merges_validated', 0),
            'canon_divergence': flags.get('canon_divergence', 0)}
