"""C13 - sampling_violation_counter counts exactly the out-of-tolerance gaps (E2 online, E1 offline)."""
import itertools
import sys
from fractions import Fraction as Fr

from .. import formula as F
from .. import refsem
from .. import impl
from .. import explore

ID = 'C13'
LEVEL = 'model_checking'
RULE = ('per configuration (sampling period and its unit, default unit, tolerance): BFS over time-stamp sequences of the real online monitor, '
        'events = gaps from P*{1-2tol, 1-tol, 1-tol/2, 1, 1+tol/2, 1+tol, 1+2tol, 2, 15/16, 17/16} and one reset() (dyadic, so interval membership is exact), counters kept '
        'in the state key; invariant on every transition: sampling_violation_counter == number of gaps outside [P(1-tol), P(1+tol)] (computed '
        'with exact fractions) and the returned robustness == reference rho (unaffected by jitter); offline: every sequence as the time column of '
        'evaluate() on the offline and on the combined specification, and every pair of such sequences evaluated one after the other on the same object (in half of the pairs through one data set that the caller refills in place); '
        'switch layer: an object configured with one of 5 configurations, used, then switched to another one through spec.unit / set_sampling_period (online: after reset()) '
        'and used again - all ordered pairs, both setter orders, the counter must follow the configuration in force; non-trivial = the sequence has at least one in-tolerance and one out-of-tolerance gap')
ASSUMPTIONS = ['time-stamps are expressed in the default unit of the specification; periods and tolerances dyadic',
               'sequence length bounded by the tier (the counter logic has no memory beyond the previous time-stamp)']

TOLS = (Fr(0), Fr(1, 8), Fr(1, 4), Fr(1, 2), Fr(1))
# (period value, period unit, default unit or None)
CONFIGS = ((1, 's', None), (500, 'ms', 's'), (500, 'ms', 'ms'), (1, 's', 'ms'), (2, 's', 's'), (250000, 'us', 'ms'),
           (1, 'ms', 'us'), (125, 'ms', 's'),
           # periods of a few ns with time-stamps in ns that carry sub-nanosecond fractions (the internal time base of rtamt is 1 ns)
           (4, 'ns', 'ns'), (2, 'ns', 'ns'), (1, 'us', 'ns'))
U = {'s': 10 ** 9, 'ms': 10 ** 6, 'us': 10 ** 3, 'ns': 1}


def period_in_default(cfg):
    p, pu, du = cfg
    return Fr(p * U[pu], U[du or 's'])


def gaps(P, tol):
    # tolerance-relative letters plus two fixed ones close to the period (they matter when tol = 0 or tol is large)
    fs = [1 - 2 * tol, 1 - tol, 1 - tol / 2, Fr(1), 1 + tol / 2, 1 + tol, 1 + 2 * tol, Fr(2), Fr(15, 16), Fr(17, 16)]
    out = []
    for k in fs:
        g = P * k
        if g > 0 and g not in out:
            out.append(g)
    # a time-stamp that lies BEFORE its predecessor (a late sample): the gap is negative, hence outside the interval, and the next gap is
    # measured from this time-stamp, not from the largest one seen so far
    out.append(-P / 2)
    return out


def outside(g, P, tol):
    return g < P * (1 - tol) or g > P * (1 + tol)


EPOCH_NS = 1700000000000000000      # time-stamps of this magnitude are exact as Python ints and 256 ns apart as floats


class JitterModel(object):
    def __init__(self, cfg, tol, base=0):
        self.cfg = cfg
        self.tol = tol
        self.base = base      # 0: float time-stamps from 0; otherwise integer time-stamps starting at base
        self.P = period_in_default(cfg)
        self.events = gaps(self.P, tol)
        self.f = ('once', (0, 1), F.X)
        self.text = 'out = ' + F.pr(self.f, lambda I: '[%s,%s]' % (F.fnum(float(I[0] * self.P)), F.fnum(float(I[1] * self.P))))
        self.nontrivial = 0

    def fresh(self, kind='dt_on', combined=False):
        p, pu, du = self.cfg
        return impl.build(kind, self.text, ['x'], unit=du, period=(p, pu, float(self.tol)), combined=combined)

    def value(self, i):
        return F.V3[i % 3]

    def stamp(self, offset):
        """time-stamp handed to the monitor for the exact offset (a Fraction) from the start of the segment"""
        if self.base:
            assert offset.denominator == 1
            return self.base + int(offset)
        return float(offset)

    @staticmethod
    def segment(hist):
        """the gaps since the last reset()"""
        if 'R' in hist:
            k = len(hist) - 1 - hist[::-1].index('R')
            return hist[k + 1:]
        return hist

    def apply(self, obj, hist, e):
        if e == 'R':
            out = impl.outcome(obj.reset)
            return (out, impl.outcome(lambda: obj.sampling_violation_counter))
        seg = self.segment(hist)
        t = self.stamp(sum(seg, Fr(0)) + e)
        out = impl.outcome(impl.dt_update, obj, t, {'x': self.value(len(seg))})
        return (out, impl.outcome(lambda: obj.sampling_violation_counter))

    def expected_count(self, hist):
        seg = self.segment(hist)
        return sum(1 for g in seg[1:] if outside(g, self.P, self.tol))

    def implkey(self, obj):
        return explore.snapshot(obj, ())

    def refkey(self, hist):
        seg = self.segment(hist)
        return (self.expected_count(hist), sum(seg, Fr(0)), len(seg) % 3, self.value(len(seg) - 1) if seg else None, 'R' in hist and not seg)

    def check(self, hist, out, obj):
        (kind, val), (ck, cnt) = out
        n = len(hist)
        seg = self.segment(hist)
        if hist[-1] == 'R':
            if kind != 'ok':
                return 'reset() raised %s' % (val,)
            if ck != 'ok' or cnt != 0:
                return 'sampling_violation_counter is %r right after reset()' % (cnt,)
            return None
        if kind != 'ok':
            return 'update() number %d raised %s' % (n, val)
        w = {'x': [self.value(i) for i in range(len(seg))]}
        exp = refsem.ev(self.f, w, len(seg))[-1]
        if not refsem.same(val, exp):
            return 'update() number %d returned %r, rho is %r (robustness must not depend on the time-stamps)' % (n, val, exp)
        want = self.expected_count(hist)
        if ck != 'ok' or cnt != want:
            return ('sampling_violation_counter is %r after time-stamps %r%s; %d gaps lie outside [P(1-tol), P(1+tol)] with P=%s (default unit), tol=%s'
                    % (cnt, [float(sum(seg[:i + 1], Fr(0))) for i in range(len(seg))], ' (since the last reset())' if 'R' in hist else '', want, self.P, self.tol))
        inside = (len(seg) - 1) - want
        if want and inside:
            self.nontrivial += 1
        return None

    def enabled(self, hist):
        # one reset() per history, not as the first event and not twice in a row
        if hist and 'R' not in hist:
            return self.events + ['R']
        return self.events


def shards(tier):
    out = []
    for cfg in CONFIGS:
        for tol in TOLS:
            out.append({'cfg': list(cfg), 'tol': [tol.numerator, tol.denominator]})
    # integer time-stamps of epoch-nanosecond magnitude (exact as ints; every gap of the alphabet is a whole number of ns)
    for cfg in ((1600, 'ns', 'ns'), (16, 'us', 'ns')):
        for tol in TOLS:
            out.append({'cfg': list(cfg), 'tol': [tol.numerator, tol.denominator], 'base': EPOCH_NS})
    for c1 in SWITCH_CONFIGS:
        for c2 in SWITCH_CONFIGS:
            if c1 != c2:
                out.append({'switch': [list(c1), list(c2)], 'tols': [[0, 1], [1, 8], [1, 2]]})
    return out


def offline_check(res, mod, m, depth):
    """every gap sequence of length 1..depth as the time column of evaluate()"""
    for L in range(1, depth + 1):
        for hist in itertools.product(m.events, repeat=L):
            ts = [m.stamp(sum(hist[:i + 1], Fr(0))) for i in range(L)]
            w = {'x': [m.value(i) for i in range(L)]}
            want = m.expected_count(hist)
            for combined in (False, True):
                res.evaluations += 1
                case = {'mode': 'offline', 'combined': combined, 'cfg': list(m.cfg), 'tol': [m.tol.numerator, m.tol.denominator], 'base': m.base,
                        'gaps': [[g.numerator, g.denominator] for g in hist]}
                msg = None
                try:
                    spec = m.fresh('dt_off', combined)
                    kind, val = impl.outcome(impl.dt_evaluate, spec, w, ts)
                except Exception as e:
                    kind, val = 'exc', repr(e)
                if kind != 'ok':
                    msg = 'evaluate() raised %s' % (val,)
                else:
                    ref = refsem.ev(m.f, w, L)
                    if not refsem.same_list([p[1] for p in val], ref):
                        msg = 'offline values %r differ from rho %r' % (val, ref)
                    else:
                        cnt = spec.sampling_violation_counter
                        if cnt != want:
                            msg = ('offline sampling_violation_counter is %r for time column %r; %d gaps lie outside the tolerance (P=%s, tol=%s)'
                                   % (cnt, ts, want, m.P, m.tol))
                if msg:
                    res.violation(mod, case, msg)
                    res.outcomes['offline: ' + msg.split(' is ')[0][:30]] += 1
                else:
                    res.outcomes['offline ok'] += 1
                    if want and (L - 1 - want):
                        res.nontrivial += 1
                res.digest('off', hist, combined, msg)


def offline_repeat_check(res, mod, m, depth):
    """one offline specification object evaluates two data sets one after the other: the counter must be the number of out-of-tolerance gaps
    INSIDE the supplied time columns (accumulated over both, or of the last one only - the statement allows either reading), never a
    pseudo-gap between the end of one column and the start of the next"""
    seqs = [h for L in range(1, depth + 1) for h in itertools.product(m.events, repeat=L)]
    for h1 in seqs:
        for h2 in seqs:
            for combined in (False, True):
                res.evaluations += 1
                case = {'mode': 'offline_repeat', 'combined': combined, 'cfg': list(m.cfg), 'tol': [m.tol.numerator, m.tol.denominator], 'base': m.base,
                        'gaps': [[g.numerator, g.denominator] for g in h1], 'gaps2': [[g.numerator, g.denominator] for g in h2]}
                msg = offline_repeat_case(m, h1, h2, combined)
                if msg:
                    res.violation(mod, case, msg)
                    res.outcomes['offline repeat: counter'] += 1
                else:
                    res.outcomes['offline repeat ok'] += 1
                    res.nontrivial += 1
                res.digest('offrep', h1, h2, combined, msg)


def offline_repeat_case(m, h1, h2, combined, reuse=None):
    spec = m.fresh('dt_off', combined)
    if reuse is None:
        reuse = (len(h1) + len(h2)) % 2 == 0
    buf = {'time': [], 'x': []}      # reuse: the caller keeps one data set and refills its lists in place before the second evaluate()
    for h in (h1, h2):
        L = len(h)
        ts = [m.stamp(sum(h[:i + 1], Fr(0))) for i in range(L)]
        w = {'x': [m.value(i) for i in range(L)]}
        if reuse:
            buf['time'][:] = ts
            buf['x'][:] = w['x']
            kind, val = impl.outcome(spec.evaluate, buf)
        else:
            kind, val = impl.outcome(impl.dt_evaluate, spec, w, ts)
        if kind != 'ok':
            return 'evaluate() raised %s' % (val,)
    cnt = spec.sampling_violation_counter
    a, b = m.expected_count(h1), m.expected_count(h2)
    if cnt not in (a + b, b):
        return ('after evaluate() on two data sets with time columns built from the gaps %r and %r the counter is %r; the columns contain %d and %d '
                'out-of-tolerance gaps (P=%s, tol=%s)%s' % ([float(g) for g in h1], [float(g) for g in h2], cnt, a, b, m.P, m.tol,
                                                        '; the caller used ONE data set, refilled in place' if reuse else ''))
    return None


SWITCH_CONFIGS = ((1, 's', 's'), (500, 'ms', 's'), (500, 'ms', 'ms'), (1, 's', 'ms'), (250000, 'us', 'ms'))


def switch_steps(c1, c2):
    """the setter calls that turn configuration c1 into c2 (only what differs; both orders when both differ)"""
    steps = []
    if c1[2] != c2[2]:
        steps.append(('unit', c2[2]))
    if c1[:2] != c2[:2]:
        steps.append(('period', c2[:2]))
    return [steps] if len(steps) < 2 else [steps, steps[::-1]]


def do_switch(spec, steps, tol):
    for what, v in steps:
        if what == 'unit':
            spec.unit = v
        else:
            spec.set_sampling_period(v[0], v[1], float(tol))


def switch_case(c1, c2, steps, tol, h1, h2, mode, combined=False):
    """one specification object is used under configuration c1 (time-stamps built from the gaps h1), then switched to c2 through the public
    setters (online: after reset()) and used again (gaps h2).  P is then the period of c2 in the default unit of c2."""
    m1, m2 = JitterModel(c1, tol), JitterModel(c2, tol)
    text = 'out = once x'
    f = ('once', None, F.X)
    spec = impl.build('dt_off' if mode == 'offline' else 'dt_on', text, ['x'], unit=c1[2], period=(c1[0], c1[1], float(tol)), combined=combined)
    runs = []
    for m, h in ((m1, h1), (m2, h2)):
        L = len(h)
        ts = [float(sum(h[:i + 1], Fr(0))) for i in range(L)]
        w = {'x': [m.value(i) for i in range(L)]}
        if mode == 'offline':
            kind, val = impl.outcome(impl.dt_evaluate, spec, w, ts)
            vals = [p[1] for p in val] if kind == 'ok' else None
        else:
            vals = []
            for i in range(L):
                kind, val = impl.outcome(impl.dt_update, spec, ts[i], {'x': w['x'][i]})
                if kind != 'ok':
                    break
                vals.append(val)
        if kind != 'ok':
            return '%s under %r raised %s' % ('evaluate()' if mode == 'offline' else 'update()', m.cfg, val)
        if not refsem.same_list(vals, refsem.ev(f, w, L)):
            return 'values %r differ from rho (robustness must not depend on the time-stamps)' % (vals,)
        runs.append((m.expected_count(h), spec.sampling_violation_counter))
        if m is m1:
            if mode == 'online':
                k, v = impl.outcome(spec.reset)
                if k != 'ok':
                    return 'reset() raised %s' % (v,)
            k, v = impl.outcome(do_switch, spec, steps, tol)
            if k != 'ok':
                return 'switching the configuration %r raised %s' % (steps, v)
    (a, _), (b, cnt) = runs
    ok = (cnt == b) if mode == 'online' else (cnt in (a + b, b))
    if not ok:
        return ('object configured with %r, used, %sswitched to %r by %r and used again with time-stamps %r: sampling_violation_counter is %r; '
                '%d gaps lie outside [P(1-tol), P(1+tol)] with P=%s (default unit of the new configuration), tol=%s%s'
                % (c1, 'reset, ' if mode == 'online' else '', c2, steps, [float(sum(h2[:i + 1], Fr(0))) for i in range(len(h2))], cnt, b, m2.P, tol,
                   '' if mode == 'online' else ' (%d in the first data set)' % a))
    return None


def run_switch(shard, tier, res, mod):
    c1, c2 = tuple(shard['switch'][0]), tuple(shard['switch'][1])
    depth = 3 if tier == 'quick' else 4
    for tl in shard['tols']:
        tol = Fr(*tl)
        m1, m2 = JitterModel(c1, tol), JitterModel(c2, tol)
        firsts = [(m1.P, m1.P), (m1.P, m1.P * 2, m1.P)]
        seconds = [h for L in range(2, depth + 1) for h in itertools.product(m2.events, repeat=L)]
        for steps in switch_steps(c1, c2):
            for h1 in firsts:
                for h2 in seconds:
                    for mode, combined in (('offline', False), ('online', False)) + ((('offline', True),) if len(h2) == 2 else ()):
                        res.evaluations += 1
                        msg = switch_case(c1, c2, steps, tol, h1, h2, mode, combined)
                        if msg:
                            res.violation(mod, {'mode': 'switch', 'sub': mode, 'combined': combined, 'c1': list(c1), 'c2': list(c2), 'steps': [list(x) for x in steps],
                                                'tol': tl, 'gaps': [[g.numerator, g.denominator] for g in h1], 'gaps2': [[g.numerator, g.denominator] for g in h2]}, msg)
                            res.outcomes['switch: counter'] += 1
                        else:
                            res.outcomes['switch ok'] += 1
                            res.flags['switch_cases'] += 1
                            w = m2.expected_count(h2)
                            if w and (len(h2) - 1 - w):
                                res.nontrivial += 1
                                res.flags['switch_nontrivial'] += 1
                        res.digest('sw', c1, c2, steps, tl, h1, h2, mode, msg)
    res.formulas += 1
    res.sample({'configured': list(c1), 'switched_to': list(c2), 'by': switch_steps(c1, c2), 'tolerances': shard['tols']}, 1)


def run_shard(shard, tier, res):
    mod = sys.modules[__name__]
    if 'switch' in shard:
        return run_switch(shard, tier, res, mod)
    cfg = tuple(shard['cfg'])
    tol = Fr(*shard['tol'])
    m = JitterModel(cfg, tol, shard.get('base', 0))
    depth = 4 if tier == 'quick' else 6

    def on_violation(hist, msg):
        case = {'mode': 'online', 'cfg': list(cfg), 'tol': shard['tol'], 'base': m.base, 'gaps': [('R' if g == 'R' else [g.numerator, g.denominator]) for g in hist]}
        res.violation(mod, case, msg)
        res.outcomes['online: ' + msg.split(' is ')[0][:30]] += 1
    st = explore.bfs(m, depth, 10 ** 7, 'first', on_violation)
    res.formulas += 1
    res.states += st.states
    res.transitions += st.transitions
    res.traces += st.executions
    res.evaluations += st.transitions
    res.nontrivial += m.nontrivial
    res.flags['merges_validated'] += st.merges_validated
    if st.canon_divergence:
        res.flags['canon_divergence'] += 1
    res.outcomes['online searches'] += 1
    res.digest(cfg, tol, st.states, st.transitions)
    offline_check(res, mod, m, 3 if tier == 'quick' else 4)
    offline_repeat_check(res, mod, m, 2 if tier == 'quick' else 3)
    res.sample({'period': cfg[:2], 'default_unit': cfg[2] or 's', 'tolerance': float(tol), 'spec': m.text,
                'gap_alphabet': [float(g) for g in m.events], 'states': st.states, 'transitions': st.transitions}, 1)


def replay(case):
    m = JitterModel(tuple(case['cfg']), Fr(*case['tol']), case.get('base', 0))
    if case['mode'] == 'switch':
        msg = switch_case(tuple(case['c1']), tuple(case['c2']), [tuple(x) if x[0] == 'unit' else (x[0], tuple(x[1])) for x in case['steps']], Fr(*case['tol']),
                          tuple(Fr(*g) for g in case['gaps']), tuple(Fr(*g) for g in case['gaps2']), case['sub'], case['combined'])
        return [msg] if msg else []
    hist = tuple(('R' if g == 'R' else Fr(*g)) for g in case['gaps'])
    if case['mode'] == 'online':
        obj = m.fresh()
        msgs = []
        for i, e in enumerate(hist):
            out = m.apply(obj, hist[:i], e)
            msg = m.check(hist[:i + 1], out, obj)
            if msg:
                msgs.append(msg)
        return msgs
    if case['mode'] == 'offline_repeat':
        msg = offline_repeat_case(m, hist, tuple(Fr(*g) for g in case['gaps2']), case['combined'])
        return [msg] if msg else []
    L = len(hist)
    ts = [m.stamp(sum(hist[:i + 1], Fr(0))) for i in range(L)]
    w = {'x': [m.value(i) for i in range(L)]}
    spec = m.fresh('dt_off', case['combined'])
    kind, val = impl.outcome(impl.dt_evaluate, spec, w, ts)
    if kind != 'ok':
        return ['evaluate() raised %s' % (val,)]
    want = m.expected_count(hist)
    cnt = spec.sampling_violation_counter
    return [] if cnt == want else ['offline counter %r, expected %d' % (cnt, want)]


def finalize(agg, outcomes, flags, tier):
    from ..runner import Broken
    if agg['nontrivial'] < 500:
        raise Broken('vacuous: only %d sequences with both in- and out-of-tolerance gaps' % agg['nontrivial'])
    if flags.get('switch_nontrivial', 0) < 200:
        raise Broken('vacuous: only %d non-trivial sequences on re-configured objects' % flags.get('switch_nontrivial', 0))
    return {'configurations': len(CONFIGS) * len(TOLS), 'cases_on_reconfigured_objects': flags.get('switch_cases', 0)}
