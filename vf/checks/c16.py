"""C16 - settled offline results are stable under trace extension (engine E1)."""
import itertools
import sys

from .. import formula as F
from .. import refsem
from .. import dref
from .. import impl
from .. import reconf

ID = 'C16'
LEVEL = 'exploration'
RULE = ('all formulas without unbounded future (<=2 operators, 3-chains) x all traces w1 up to length n x ALL extensions w2 by 1..k samples over the '
        'alphabet; discrete offline: evaluate(w2)[t] == evaluate(w1)[t] for every t with t+h < |w1| (h = reference horizon); dense offline: grid '
        'signals and their extensions, equality of the step functions at every grid time t with t+h < end(w1); a case (formula, w1, w2) is '
        'non-trivial when some unsettled position does change between w1 and w2 (the settled boundary is tight); unit layer: bounded operators (incl. unless) whose bounds are written in ms, or with s and ms mixed, under a sampling period of 500 ms and default unit s; life layer: the same for specification objects '
        'that were configured and evaluated under another default unit / sampling period before (all ordered pairs of 4 configurations, bounds unit-less and with s / ms)')
ASSUMPTIONS = ['horizon from vf/refsem.py (next = 1); values V3 / {-1,2}; extensions of bounded length']

BF_U = ('not', 'prev', 's_prev', 'next', 's_next', 'rise', 'fall', 'once', 'historically', 'eventually', 'always')
BF_B = ('and', 'or', 'implies', 'iff', 'xor', 'since', 'until', 'unless')
DENSE_U = ('not', 'once', 'historically', 'eventually', 'always')


def bounded(ops):
    return [o for o in ops if not (o[0] in ('eventually', 'always', 'until', 'unless') and len(o) > 1 and o[1] is None)]


def formula_set(tier, dense=False):
    quick = tier == 'quick'
    I = ((0, 1), (1, 2), (2, 3)) if quick else F.I_FULL
    U = bounded(F.unary_ops(I, ops=DENSE_U if dense else BF_U))
    B = bounded(F.binary_ops(I, ops=BF_B))
    fs = list(F.F(2, U, B, [(F.PX, F.PY, F.X)]))
    Uc = bounded(F.unary_ops(((0, 1), (1, 2)), ops=DENSE_U if dense else BF_U))
    if quick:
        Uc = [u for u in Uc if u[0] in ('next', 'prev', 'eventually', 'always', 'once', 'rise')]
    fs += list(F.chains(3, Uc, F.PX))
    if not dense:
        # one bare variable read by a bounded operator and by a sibling node (the two nodes receive the same list)
        X, Y, px = F.X, F.Y, F.PX
        for I in ((0, 1), (0, 2), (1, 2)):
            u = ('until', I, X, Y)
            fs += [('or', u, ('once', (0, 1), X)), ('and', ('pred', '>=', Y, F.C0), u), ('or', ('always', I, X), ('pred', '>=', X, Y)),
                   ('and', ('eventually', I, X), ('historically', (0, 1), X)), ('implies', ('since', I, X, Y), ('pred', '<=', X, F.C1))]
    out, seen = [], set()
    for f in fs:
        if f not in seen and (dense or True):
            seen.add(f)
            out.append(f)
    return out


def shards(tier):
    out = []
    fs = formula_set(tier)
    per = 25 if tier == 'quick' else 8
    for i in range(0, len(fs), per):
        out.append({'kind': 'dt', 'formulas': [F.to_json(f) for f in fs[i:i + per]]})
    deep = [f for f in F.deep_formulas(BF_U, ('since', 'until', 'unless')) if refsem.horizon(f) <= 9]
    deep = deep[::3] if tier == 'quick' else deep
    for i in range(0, len(deep), 3):
        out.append({'kind': 'dt', 'deep': True, 'formulas': [F.to_json(f) for f in deep[i:i + 3]]})
    # bounds written with explicit units that differ from the default unit, under a sampling period of 500 ms
    un = unit_formulas(tier)
    for i in range(0, len(un), 12):
        for style in ('ms', 'mixed'):
            out.append({'kind': 'dt', 'units': style, 'formulas': [F.to_json(f) for f in un[i:i + 12]]})
    for fi in range(len(LIFE_FORMULAS)):
        for suffix in ('', 's', 'ms'):
            out.append({'kind': 'life', 'formula': fi, 'suffix': suffix})
    fd = formula_set(tier, dense=True)
    per = 12 if tier == 'quick' else 4
    for i in range(0, len(fd), per):
        out.append({'kind': 'ct', 'formulas': [F.to_json(f) for f in fd[i:i + per]]})
    return out


UNIT_STYLES = {'ms': lambda I: '[%dms,%dms]' % (I[0] * 500, I[1] * 500),
               'mixed': lambda I: '[%ss,%dms]' % (F.fnum(I[0] * 0.5), I[1] * 500)}
UNIT_PERIOD = (500, 'ms')


def unit_formulas(tier):
    px, py, X = F.PX, F.PY, F.X
    fs = []
    for I in ((0, 1), (1, 2), (2, 3), (0, 3)):
        fs += [('always', I, px), ('eventually', I, X), ('once', I, px), ('historically', I, X), ('until', I, px, py), ('since', I, px, py), ('unless', I, px, py),
               ('unless', I, X, ('pred', '<=', X, F.C1)), ('or', ('unless', I, px, py), ('once', (0, 1), X)), ('next', ('unless', I, px, py)),
               ('always', (0, 1), ('eventually', I, px)), ('and', ('eventually', I, px), ('historically', I, py))]
    return fs if tier != 'quick' else fs[::2] + fs[1::12]


def run_dt(shard, tier, res, mod):
    quick = tier == 'quick'
    for fj in shard['formulas']:
        f = F.from_json(fj)
        vs = sorted(F.fvars(f))
        h = refsem.horizon(f)
        text = 'out = ' + F.pr(f)
        res.formulas += 1
        period = None
        if shard.get('units'):
            text = 'out = ' + F.pr(f, bound=UNIT_STYLES[shard['units']])
            period = UNIT_PERIOD
            res.flags['unit_spelled_formulas'] += 1
        spec = impl.build('dt_off', text, vs, period=period)
        values = F.V3 if len(vs) == 1 else F.V2
        n1, ext = (4, 2) if len(vs) == 1 else (3, 2)
        if not quick:
            n1, ext = (5, 2) if len(vs) == 1 else (3, 3)
        if shard.get('deep'):
            values = F.V2
            n1, ext = ((8, 3) if quick else (10, 3)) if len(vs) == 1 else ((4, 2) if quick else (5, 2))
        cache = {}

        def val(tr):
            if tr not in cache:
                k, v = impl.outcome(impl.dt_evaluate, spec, F.trace_dict(tr, vs))
                cache[tr] = [p[1] for p in v] if k == 'ok' else ('exc', v)
            return cache[tr]
        for w2 in F.traces(n1 + ext, values, len(vs), minlen=2):
            o2 = val(w2)
            for L1 in range(max(1, len(w2) - ext), len(w2)):
                if L1 > n1:
                    continue
                w1 = w2[:L1]
                o1 = val(w1)
                res.evaluations += 1
                case = {'kind': 'dt', 'formula': fj, 'spec': text, 'vars': vs, 'w1': [list(e) for e in w1], 'w2': [list(e) for e in w2]}
                if period:
                    case['period'] = list(period)
                if isinstance(o1, tuple) or isinstance(o2, tuple):
                    res.violation(mod, case, 'evaluate() raised %s' % ((o1 if isinstance(o1, tuple) else o2)[1],))
                    continue
                settled = [t for t in range(L1) if t + h < L1]
                bad = [t for t in settled if not refsem.same(o1[t], o2[t])]
                if bad:
                    res.violation(mod, case, 'value at settled sample %d (t+h=%d < |w1|=%d) changes from %r to %r when the trace is extended'
                                  % (bad[0], bad[0] + h, L1, o1[bad[0]], o2[bad[0]]))
                    res.outcomes['settled value changed'] += 1
                else:
                    res.outcomes['stable'] += 1
                    if any(not refsem.same(o1[t], o2[t]) for t in range(L1) if t not in settled):
                        res.nontrivial += 1
                res.digest(text, w2, L1, bool(bad))
        res.sample({'spec': text, 'horizon': h, 'w1': [[-1.0], [2.0]], 'w2': [[-1.0], [2.0], [0.0]]}, 1)


LIFE_FORMULAS = [('always', (0, 2), F.PX), ('eventually', (1, 2), F.X), ('until', (0, 1), F.PX, ('pred', '<=', F.X, F.C1)),
                 ('once', (0, 2), F.PX), ('always', (0, 1), ('eventually', (0, 1), F.PX)), ('or', ('always', (1, 1), F.PX), ('once', (0, 1), F.X)),
                 ('historically', (1, 2), ('next', F.PX))]


def run_life(shard, tier, res, mod):
    """the specification object has had an earlier life: configured, parsed and evaluated under configuration c0, then switched to c1
    through the public setters.  Stability of settled values is a statement about every specification object, also one with a history."""
    f = LIFE_FORMULAS[shard['formula']]
    suffix = shard['suffix']
    fj = F.to_json(f)
    vs = sorted(F.fvars(f))
    text = 'out = ' + F.pr(f, bound=reconf.speller(suffix))
    n1, ext = (3, 2) if tier == 'quick' else (4, 2)
    res.formulas += 1
    case0 = {'kind': 'life', 'formula': fj, 'spec': text, 'vars': vs, 'suffix': suffix}
    for name, c1, f1, spec in reconf.lived_objects('dt_off', f, suffix, vs, res, mod, case0):
        h = refsem.horizon(f1)
        case0['life'] = name
        cache = {}

        def val(tr):
            if tr not in cache:
                k, v = impl.outcome(impl.dt_evaluate, spec, F.trace_dict(tr, vs), reconf.times(c1, len(tr)))
                cache[tr] = [p[1] for p in v] if k == 'ok' else ('exc', v)
            return cache[tr]
        w2s = list(F.traces(n1 + ext, F.V2, len(vs), minlen=2))
        if F.has_op(f1, F.BIN_T) and F.max_bound(f1) > 100:
            w2s = w2s[5::9]        # bounded since/until over a window of a thousand samples takes seconds per evaluation
        for w2 in w2s:
            o2 = val(w2)
            for L1 in range(max(1, len(w2) - ext), len(w2)):
                if L1 > n1:
                    continue
                w1 = w2[:L1]
                o1 = val(w1)
                res.evaluations += 1
                case = dict(case0, w1=[list(e) for e in w1], w2=[list(e) for e in w2])
                if isinstance(o1, tuple) or isinstance(o2, tuple):
                    res.violation(mod, case, 'evaluate() after the switch %s raised %s' % (name, (o1 if isinstance(o1, tuple) else o2)[1]))
                    continue
                settled = [t for t in range(L1) if t + h < L1]
                bad = [t for t in settled if not refsem.same(o1[t], o2[t])]
                if bad:
                    res.violation(mod, case, 'object with an earlier life (%s): value at settled sample %d (t+h=%d < |w1|=%d) changes from %r to %r when the trace is extended'
                                  % (name, bad[0], bad[0] + h, L1, o1[bad[0]], o2[bad[0]]))
                    res.outcomes['settled value changed'] += 1
                else:
                    res.outcomes['stable'] += 1
                    res.flags['life_cases'] += 1
                    if any(not refsem.same(o1[t], o2[t]) for t in range(L1) if t not in settled):
                        res.nontrivial += 1
                        res.flags['life_nontrivial'] += 1
                res.digest(text, name, w2, L1, bool(bad))
    res.sample({'spec': text, 'lives': [l[0] for l in reconf.lives()][:4], 'w2_max_len': n1 + ext}, 1)


def dense_ext_signals(nvars, tier):
    """(w1, w2) pairs: w1 on [0, L1], w2 = w1 plus samples after end(w1)"""
    quick = tier == 'quick'
    out = []
    base = dref.signals_L(2, F.V2, 0.0, max_interior=1 if (quick or nvars > 1) else 2)
    tails = []
    for k in (1, 2):
        for ts in itertools.combinations((2.5, 3.0, 3.5, 4.0), k):
            for vals in itertools.product(F.V2, repeat=k):
                tails.append(tuple(zip(ts, vals)))
    if quick:
        tails = tails[::3]
    if nvars == 1:
        for b in base:
            for tl in tails:
                out.append(({'x': b}, {'x': b + tl}))
    else:
        bq = base[::3]
        for bx in bq:
            for by in bq[::2]:
                for tl in tails[::4]:
                    out.append(({'x': bx, 'y': by}, {'x': bx + tl, 'y': by + tails[0]}))
    return out


def run_ct(shard, tier, res, mod):
    cache_pairs = {}
    for fj in shard['formulas']:
        f = F.from_json(fj)
        vs = sorted(F.fvars(f))
        h = refsem.horizon(f)
        text = 'out = ' + F.pr(f)
        res.formulas += 1
        spec = impl.build('ct_off', text, vs)
        if len(vs) not in cache_pairs:
            cache_pairs[len(vs)] = dense_ext_signals(len(vs), tier)
        for w1, w2 in cache_pairs[len(vs)]:
            w1 = {v: w1[v if v in w1 else 'x'] for v in vs}
            w2 = {v: w2[v if v in w2 else 'x'] for v in vs}
            res.evaluations += 1
            k1, o1 = impl.outcome(impl.ct_evaluate, spec, w1)
            k2, o2 = impl.outcome(impl.ct_evaluate, spec, w2)
            case = {'kind': 'ct', 'formula': fj, 'spec': text, 'vars': vs, 'w1': {v: [list(p) for p in s] for v, s in w1.items()},
                    'w2': {v: [list(p) for p in s] for v, s in w2.items()}}
            if k1 != 'ok' or k2 != 'ok':
                res.violation(mod, case, 'evaluate() raised %s' % (o1 if k1 != 'ok' else o2,))
                continue
            end1 = min(s[-1][0] for s in w1.values())
            times = [t for t in dref.query_times(0.0, end1)]
            settled = [t for t in times if t + h < end1]
            bad = [t for t in settled if not refsem.same(dref.stepval(o1, t), dref.stepval(o2, t))]
            if bad:
                res.violation(mod, case, 'dense value at settled time %r (t+h < end(w1)=%r) changes from %r to %r when the signal is extended'
                              % (bad[0], end1, dref.stepval(o1, bad[0]), dref.stepval(o2, bad[0])))
                res.outcomes['settled value changed'] += 1
            else:
                res.outcomes['stable'] += 1
                if any(not refsem.same(dref.stepval(o1, t), dref.stepval(o2, t)) for t in times if t not in settled):
                    res.nontrivial += 1
            res.digest(text, sorted(w2.items()), bool(bad))
        res.sample({'dense_spec': text, 'horizon': h, 'w1': case['w1'], 'w2': case['w2']}, 1)


def run_shard(shard, tier, res):
    mod = sys.modules[__name__]
    if shard['kind'] == 'dt':
        run_dt(shard, tier, res, mod)
    elif shard['kind'] == 'life':
        run_life(shard, tier, res, mod)
    else:
        run_ct(shard, tier, res, mod)


def replay(case):
    f = F.from_json(case['formula'])
    h = refsem.horizon(f)
    if case['kind'] == 'life':
        c1, f1, spec = reconf.lived_object('dt_off', f, case['suffix'], case['vars'], case['life'])
        h = refsem.horizon(f1)
        w1 = tuple(tuple(e) for e in case['w1']); w2 = tuple(tuple(e) for e in case['w2'])
        o1 = [p[1] for p in impl.dt_evaluate(spec, F.trace_dict(w1, case['vars']), reconf.times(c1, len(w1)))]
        o2 = [p[1] for p in impl.dt_evaluate(spec, F.trace_dict(w2, case['vars']), reconf.times(c1, len(w2)))]
        bad = [t for t in range(len(w1)) if t + h < len(w1) and not refsem.same(o1[t], o2[t])]
        return ['settled sample %d changes from %r to %r' % (bad[0], o1[bad[0]], o2[bad[0]])] if bad else []
    if case['kind'] == 'dt':
        spec = impl.build('dt_off', case['spec'], case['vars'], period=tuple(case['period']) if case.get('period') else None)
        w1 = tuple(tuple(e) for e in case['w1']); w2 = tuple(tuple(e) for e in case['w2'])
        o1 = [p[1] for p in impl.dt_evaluate(spec, F.trace_dict(w1, case['vars']))]
        o2 = [p[1] for p in impl.dt_evaluate(spec, F.trace_dict(w2, case['vars']))]
        bad = [t for t in range(len(w1)) if t + h < len(w1) and not refsem.same(o1[t], o2[t])]
        return ['settled sample %d changes from %r to %r' % (bad[0], o1[bad[0]], o2[bad[0]])] if bad else []
    spec = impl.build('ct_off', case['spec'], case['vars'])
    w1 = {v: [tuple(p) for p in s] for v, s in case['w1'].items()}
    w2 = {v: [tuple(p) for p in s] for v, s in case['w2'].items()}
    o1 = impl.ct_evaluate(spec, w1); o2 = impl.ct_evaluate(spec, w2)
    end1 = min(s[-1][0] for s in w1.values())
    bad = [t for t in dref.query_times(0.0, end1) if t + h < end1 and not refsem.same(dref.stepval(o1, t), dref.stepval(o2, t))]
    return ['settled time %r changes from %r to %r' % (bad[0], dref.stepval(o1, bad[0]), dref.stepval(o2, bad[0]))] if bad else []


def finalize(agg, outcomes, flags, tier):
    from ..runner import Broken
    if agg['nontrivial'] < 1000:
        raise Broken('vacuous: only %d cases in which an unsettled position changes' % agg['nontrivial'])
    if flags.get('life_nontrivial', 0) < 100:
        raise Broken('vacuous: only %d non-trivial cases on re-configured objects' % flags.get('life_nontrivial', 0))
    return {'cases_on_reconfigured_objects': flags.get('life_cases', 0)}
