"""C14 - the parser accepts exactly the specification language and fails only cleanly (engine E1 over strings)."""
import itertools
import sys
from fractions import Fraction as Fr

from .. import impl
from .. import grammar
from ..runner import time_limit

ID = 'C14'
LEVEL = 'exploration'
RULE = ('(a) ALL token strings up to length n over a 28-token alphabet, alone and after the head `out =`; (b) for a corpus of valid specifications that '
        'covers every production: every single-token deletion, insertion and substitution from the alphabet at every position; (c) every insertion of a '
        'character that belongs to no token at every position of the corpus texts, plus the empty and blank texts; (d) all interval bound pairs from '
        '{0,1,2,3}^2 with and without units, declarations in the text (const <type> k = <every literal form> used as value / bound / both / not at all, variable declarations with io type and initial value, imports of classes, modules, plain values and missing names), bound constants declared/undeclared, identifiers declared/undeclared/dotted; every token string is presented '
        'twice, with single blanks and with no white space around brackets, commas, colons and semicolons; (e) all sequences of up to 5 (thorough: 6) operations on ONE '
        'specification object over {4 spec texts, 5 add_sub_spec texts (valid and invalid), parse()}: every parse() is judged against the text in force. Oracle (one-directional): '
        'parse() returns => the token string is derivable from the grammar (Earley recogniser over the productions of the .g4 files), no character was '
        'skipped, 0 <= begin <= end, bound constants declared, and a first evaluation with data for every identifier returns or raises RTAMTException; '
        'in every other case the only admissible outcome is RTAMTException; every call runs under a wall-clock limit. non-trivial = accepted string, or '
        'string that is derivable but for a side condition')
ASSUMPTIONS = ['termination is decided up to a 5 s limit per text', 'a derivable text refused with RTAMTException is not a C14 violation (counted only)',
               'vf/grammar.py transcribes the productions; its self-check binds rule names, alternative labels and keyword spellings to the .g4 files']

ALPHABET = ['x', '1', '1.5', '(', ')', '[', ']', ',', ':', ';', '=', '>=', '==', '-', '+', 'not', 'and', 'always', 'until', 'unless',
            'since', 'once', 'prev', 'abs', 'rise', 's', 'ms', 'out']
ILLEGAL = ['#', '?', '~', '%', '"', "'", '\\', '^', '`']
U = {'s': 10 ** 9, 'ms': 10 ** 6, 'us': 10 ** 3, 'ns': 1}

CORPUS = [
    'out = x >= 1', 'x', 'out = always [ 0 , 1 ] ( x >= 1 )', 'out = ( x >= 1 ) until [ 1 : 2 ] ( y <= 1.5 )',
    'out = ( x >= 1 ) since [ 0 , 2 s ] ( y <= 1.5 )', 'out = once [ 1 ms , 2 ms ] x', 'out = historically x and eventually [ 0 , 1 ] y',
    'out = not ( x >= 1 ) or y > 0 implies prev x < 2', 'out = rise ( x >= 1 ) iff fall ( y >= 1 )', 'out = x xor y',
    'out = abs ( x - y ) + sqrt ( x ) * exp ( y ) / pow ( x , 2 ) >= log ( x , 2 ) - ln ( y )', 'out = - x >= 0',
    'out = next x and s_next y or s_prev x', 'out = ( x >= 1 ) unless [ 0 , 1 ] ( y >= 1 )', 'out = x == y', 'out = x !== 1',
    'p = once [ 0 , 1 ] x ; out = p and prev p', 'out = G F x', 'out = x U y', 'out = x S [ 0 , 1 ] y', 'out = ! x & y | x -> y <-> x',
    'out = H O Y x', 'out = X sX sY x', 'out = always ( x >= 1 ) ;', 'out = z >= 1', 'out = x.f >= 1', 'out = always [ 0 , c ] x',
    'out = eventually [ 1 , 1 ] ( x >= 0.5 )', 'out = ( ( x ) )', 'out = x <= 1 and 1 <= x',
]


def declare(spec):
    spec.declare_var('x', 'float')
    spec.declare_var('y', 'float')
    spec.declare_var('out', 'float')
    # declared constants that may be used as bounds: cp = 2, cn = -3 (a negative bound must be refused)
    spec.declare_const('cp', 'int', '2')
    spec.declare_const('cn', 'int', '-3')
    return spec


CONSTS = {'cp': 2, 'cn': -3}


def new_spec(text):
    s = impl.rtamt.StlDiscreteTimeOfflineSpecification()
    declare(s)
    s.spec = text
    return s


def intervals_of(words):
    """(begin, begin_unit, end, end_unit) for every interval in the word list; entries are words"""
    out = []
    i = 0
    while i < len(words):
        if words[i] == '[':
            j = i + 1
            grp = []
            while j < len(words) and words[j] != ']':
                grp.append(words[j])
                j += 1
            out.append(grp)
            i = j
        i += 1
    res = []
    for grp in out:
        seps = [k for k, w in enumerate(grp) if w in (',', ':')]
        if len(seps) != 1:
            continue
        a, b = grp[:seps[0]], grp[seps[0] + 1:]
        if not (1 <= len(a) <= 2 and 1 <= len(b) <= 2):
            continue
        res.append((a[0], a[1] if len(a) == 2 else '', b[0], b[1] if len(b) == 2 else ''))
    return res


def lit_value(w):
    """exact value of a literal word"""
    t = w.replace('_', '')
    if t[:2].lower() in ('0x', '0b'):
        return Fr(int(t, 0))
    from decimal import Decimal
    return Fr(Decimal(t))


def declared_consts(words):
    """constants declared by the text itself: const <type> <name> = <literal>"""
    out = {}
    for i in range(len(words) - 4):
        if words[i] == 'const' and words[i + 3] == '=':
            try:
                out[words[i + 2]] = lit_value(words[i + 4])
            except Exception:
                pass
    return out


def side_conditions(words):
    """message if an accepted text violates a side condition of the statement"""
    CONSTS = dict(globals()['CONSTS'], **declared_consts(words))
    for a, ua, b, ub in intervals_of(words):
        for w in (a, b):
            if grammar.token_type(w) == 'Identifier' and w not in CONSTS:
                return 'bound constant %s is not declared' % w
        try:
            ba = (Fr(CONSTS[a]) if a in CONSTS else lit_value(a)) * U[ua or ub or 's']
            bb = (Fr(CONSTS[b]) if b in CONSTS else lit_value(b)) * U[ub or ua or 's']
        except Exception:
            continue
        if ba > bb:
            return 'interval [%s%s,%s%s] has begin > end' % (a, ua, b, ub)
        if ba < 0:
            return 'negative bound'
    return None


def huge_bound(words):
    consts = dict(CONSTS, **declared_consts(words))
    for a, ua, b, ub in intervals_of(words):
        for w, u in ((a, ua or ub or 's'), (b, ub or ua or 's')):
            try:
                if (Fr(consts[w]) if w in consts else lit_value(w)) * U[u] > 10 ** 6 * U['s']:
                    return True
            except Exception:
                pass
    return False


def first_evaluation(spec, words):
    ids = sorted({w.split('.')[0] for w in words if grammar.token_type(w) == 'Identifier'})
    d = {'time': [0, 1, 2]}
    for v in ids:
        d[v] = [1.0, 2.0, 0.5]
    if len(words) > 5 and words[0] == 'from' and words[4] == words[3] and words[5] == 'p':
        # well-formed data for a variable of an imported structured type: objects that carry the fields the texts read (p.x, p.inner.x)
        from .. import msgs
        objs = []
        for x in d['p']:
            o = msgs.Outer(x=x)
            o.x = x
            objs.append(o)
        d['p'] = objs
    return impl.outcome(spec.evaluate, d)


def judge_words(words, text=None, skipped_char=False):
    """returns (message | None, class) for the text built from the word list"""
    text = ' '.join(words) if text is None else text
    try:
        with time_limit(5):
            k, v = impl.outcome(lambda: new_spec(text).parse())
            spec = None
            if k == 'ok':
                spec = new_spec(text)
                spec.parse()
    except TimeoutError:
        return 'parse() did not terminate within 5 s', 'timeout'
    if k == 'rtamt':
        return None, 'rejected'
    if k == 'exc':
        return 'parse() raised %s instead of RTAMTException' % (v,), 'other exception'
    # accepted
    if skipped_char:
        return 'parse() succeeded although the text contains a character that belongs to no token', 'accepted illegal char'
    try:
        member = grammar.in_language(words)
    except ValueError:
        member = False
    if not member:
        return 'parse() succeeded but the token string is not derivable from the grammar', 'accepted non-member'
    sc = side_conditions(words)
    if sc:
        return 'parse() succeeded although %s' % sc, 'accepted bad side condition'
    if huge_bound(words):
        return None, 'accepted'       # a window of more than a million samples: how long its evaluation takes is not the parser's business
    try:
        with time_limit(5):
            k2, v2 = first_evaluation(spec, words)
    except TimeoutError:
        return 'first evaluation did not terminate', 'timeout'
    if k2 == 'exc' and not v2.startswith(('ValueError: math domain error', 'ZeroDivisionError', 'OverflowError')):
        # (math domain errors of sqrt/log/division on the probe data are outside the property)
        return 'parse() succeeded but the first evaluation raised %s' % (v2,), 'accepted, evaluation crashed'
    return None, 'accepted'


def shards(tier):
    n = 4 if tier == 'quick' else 5
    out = []
    for a in ALPHABET:
        for head in ('', 'out ='):
            out.append({'mode': 'strings', 'first': a, 'head': head, 'n': n})
    for i in range(len(CORPUS)):
        out.append({'mode': 'edits', 'i': i})
    out.append({'mode': 'illegal'})
    out.append({'mode': 'bounds'})
    out.append({'mode': 'literals'})
    for k in range(4):
        out.append({'mode': 'declarations', 'part': k})
    out.append({'mode': 'nesting'})
    for o in SEQ_OPS:
        out.append({'mode': 'sequences', 'first': o[0], 'n': 5 if tier == 'quick' else 6})
    return out


# every literal form of the lexer grammar: decimal, hex, binary, underscores, reals with and without exponent
LITERALS = ['0', '7', '10', '1_000', '1__0', '0x10', '0X1f', '0xA_b', '0b11', '0B1_0', '1.5', '5.', '.5', '1e1', '1E+2', '1.5e-1', '.5e1', '1_0.2_5', '2e0']


# literals of absurd magnitude or length (more digits than the interpreter converts between int and str by default)
HUGE_LITERALS = ['1e400', '1e-400', '1e5000', '1e-5000', '9' * 4400, '0x' + 'f' * 4000, '1.' + '0' * 4400 + '1', '0b' + '1' * 15000]


SOLO = ('(', ')', '[', ']', ',', ':', ';')     # tokens that never merge with a neighbour: white space around them is optional


def glued(words):
    """the same token string written with no white space around brackets, commas, colons and semicolons"""
    out = ''
    for i, w in enumerate(words):
        if i and not (w in SOLO or words[i - 1] in SOLO):
            out += ' '
        out += w
    return out


def nesting_verdict(construct, depth):
    from . import c17
    text = 'out = ' + c17.NEST[construct](depth)
    old = sys.getrecursionlimit()
    sys.setrecursionlimit(c17.DEFAULT_RECURSION_LIMIT)
    try:
        with time_limit(60):
            k, v = impl.outcome(lambda: new_spec(text).parse())
    except TimeoutError:
        return 'parse() of a specification nested %d deep (%s) did not terminate within 60 s' % (depth, construct), 'timeout'
    finally:
        sys.setrecursionlimit(old)
    if k == 'exc':
        return 'parse() of a specification nested %d deep (%s) raised %s instead of RTAMTException' % (depth, construct, str(v)[:100]), 'other exception'
    return None, ('accepted' if k == 'ok' else 'rejected')


# operations on ONE specification object: the text reaches parse() through spec.spec and through add_sub_spec(), and parse() may be called
# any number of times.  (name, kind, text, text is outside the language or violates a side condition)
SEQ_OPS = [
    ('T1', 'spec', 'out = always [ 0 , 1 ] ( x >= 1 )', False),
    ('T2', 'spec', 'out = p and prev p', False),
    ('T3', 'spec', 'out = once [ 3 , 1 ] x', True),
    ('T4', 'spec', 'out = x # >= 1', True),
    ('S1', 'sub', 'p = once [ 0 , 1 ] x ;', False),
    ('S2', 'sub', 'q = once [ 2 , 1 ] y ;', True),
    ('S3', 'sub', 'q = ( x >= 1 ;', True),
    ('S4', 'sub', 'q = x ? 1 ;', True),
    ('S5', 'sub', 'q = always [ 0 , k ] x ;', True),
    ('P', 'parse', None, None),
]


def run_sequence(names):
    """message | None, number of parse() calls judged.  One-directional oracle as everywhere in C14: a parse() that returns normally while the
    text in force (all sub-specifications added so far + the current spec text) is outside the language is a violation; so is any exception
    other than RTAMTException"""
    ops = {o[0]: o for o in SEQ_OPS}
    s = impl.rtamt.StlDiscreteTimeOfflineSpecification()
    declare(s)
    cur_bad = None       # None: no text yet
    sub_bad = False
    judged = 0
    for i, nme in enumerate(names):
        _, kind, text, bad = ops[nme]
        if kind == 'spec':
            s.spec = text
            cur_bad = bad
        elif kind == 'sub':
            k, v = impl.outcome(s.add_sub_spec, text)
            if k == 'exc':
                return 'add_sub_spec(%r) raised %s' % (text, v), judged
            sub_bad = sub_bad or bad
        else:
            try:
                with time_limit(5):
                    k, v = impl.outcome(s.parse)
            except TimeoutError:
                return 'parse() number %d did not terminate within 5 s' % (i + 1), judged
            judged += 1
            if k == 'exc':
                return 'step %d: parse() raised %s instead of RTAMTException' % (i + 1, v), judged
            if k == 'ok' and (cur_bad is None or cur_bad or sub_bad):
                return ('step %d: parse() succeeded although the text in force is not a specification (%s)'
                        % (i + 1, 'no text' if cur_bad is None else ('the spec text' if cur_bad else 'a sub-specification added with add_sub_spec()'))), judged
    return None, judged


def run_shard(shard, tier, res):
    mod = sys.modules[__name__]

    if shard['mode'] == 'sequences':
        names = [o[0] for o in SEQ_OPS]
        for L in range(0, shard['n']):
            for rest in itertools.product(names, repeat=L):
                seq = [shard['first']] + list(rest)
                if 'P' not in seq:
                    continue
                res.evaluations += 1
                msg, judged = run_sequence(seq)
                if msg:
                    res.violation(mod, {'mode': 'sequences', 'ops': seq, 'words': [], 'text': None}, 'operations %s: %s' % (' '.join(seq), msg))
                    res.outcomes['sequence: violation'] += 1
                else:
                    res.outcomes['sequence: ok'] += 1
                    res.flags['sequence_parse_calls'] += judged
                    if seq.count('P') > 1:
                        res.nontrivial += 1
                res.digest(seq, msg)
        res.sample({'operations': ['T1', 'P', 'S2', 'P'], 'meaning': [o[2] for o in SEQ_OPS if o[0] in ('T1', 'S2')],
                    'verdict': 'the second parse() must raise RTAMTException'}, 1)
        return

    def one(words, text=None, skipped=False, tag='strings'):
        if text is None and tag != 'glued':
            g = glued(words)
            if g != ' '.join(words):
                one(words, text=g, tag='glued')      # white space is not part of the language: same verdict expected
        res.evaluations += 1
        case = {'words': list(words), 'text': text, 'skipped': skipped}
        msg, cls = judge_words(list(words), text, skipped)
        res.outcomes[cls] += 1
        if msg:
            res.violation(mod, case, msg)
        elif cls == 'accepted':
            res.nontrivial += 1
        res.digest(words, text, cls)
        return cls

    if shard['mode'] == 'strings':
        head = shard['head'].split()
        for L in range(1, shard['n'] + 1):
            for rest in itertools.product(ALPHABET, repeat=L - 1):
                one(head + [shard['first']] + list(rest))
        res.sample({'text': ' '.join(head + [shard['first'], 'since', '[', '1']), 'verdict': 'must be rejected with RTAMTException'}, 1)
    elif shard['mode'] == 'edits':
        words = CORPUS[shard['i']].split()
        one(words, tag='corpus')
        for p in range(len(words)):
            one(words[:p] + words[p + 1:], tag='delete')
            for a in ALPHABET:
                one(words[:p] + [a] + words[p + 1:], tag='substitute')
        for p in range(len(words) + 1):
            for a in ALPHABET:
                one(words[:p] + [a] + words[p:], tag='insert')
        res.sample({'corpus_text': CORPUS[shard['i']], 'edit': 'every single-token deletion / insertion / substitution'}, 1)
    elif shard['mode'] == 'illegal':
        for txt in ('', ' ', ';', ' ;', '\n', '\t'):
            res.evaluations += 1
            case = {'words': txt.split(), 'text': txt, 'skipped': False}
            try:
                with time_limit(5):
                    k, v = impl.outcome(lambda: new_spec(txt).parse())
            except TimeoutError:
                k, v = 'exc', 'timeout'
            res.outcomes['blank: ' + k] += 1
            if k != 'rtamt':
                res.violation(mod, case, 'parse() of the blank text %r %s instead of raising RTAMTException'
                              % (txt, 'succeeded' if k == 'ok' else 'raised ' + str(v)))
        for c in CORPUS:
            for ch in ILLEGAL:
                for p in range(len(c) + 1):
                    txt = c[:p] + ch + c[p:]
                    one(txt.replace(ch, ' ').split(), text=txt, skipped=True)
        res.sample({'text': 'out = x #>= 1', 'verdict': 'must be rejected'}, 1)
    elif shard['mode'] == 'nesting':
        # derivable by construction (no recogniser run on thousands of tokens); parse() runs under the DEFAULT recursion limit of the
        # interpreter and must either succeed or raise RTAMTException
        from . import c17
        for construct in sorted(c17.NEST):
            for depth in (50, 100, 200, 300, 400, 500, 1000, 2000):
                text = 'out = ' + c17.NEST[construct](depth)
                res.evaluations += 1
                case = {'mode': 'nesting', 'construct': construct, 'depth': depth, 'words': [], 'text': None}
                msg, cls = nesting_verdict(construct, depth)
                res.outcomes['nested: ' + cls] += 1
                if msg:
                    res.violation(mod, case, msg)
                else:
                    res.nontrivial += 1
                res.digest(construct, depth, cls)
        res.sample({'text': 'out = ' + c17.NEST['parentheses'](3), 'depth': 3, 'verdict': 'derivable: must parse or be refused with RTAMTException'}, 1)
    elif shard['mode'] == 'declarations':
        # declarations and imports in front of the assertion: every literal form x every numeric domain type x uses of the constant as a value,
        # as a bound, both, or not at all; variable declarations with / without io type and initial value; imports of names that are classes,
        # modules, plain values or missing
        bodies = (['out', '=', 'x', '>=', 'k'], ['out', '=', 'once', '[', '0', ',', 'k', ']', 'x'], ['out', '=', 'x', '+', 'k', '>=', 'abs', '(', 'k', ')'],
                  ['out', '=', 'x'], ['out', '=', 'always', '[', 'k', ':', 'k', ']', '(', 'x', '<=', 'k', ')'])
        types = ('int', 'float', 'long', 'complex')
        if shard['part'] < 3:
            for T in types:
                for lit in LITERALS[shard['part']::3]:
                    for body in bodies:
                        one(['const', T, 'k', '=', lit] + body)
        else:
            for body in (['out', '=', 'u', '>=', '1'], ['out', '=', 'once', '[', '0', ',', '1', ']', '(', 'u', '+', 'x', '>=', '1', ')'], ['out', '=', 'x']):
                for io in ([], ['input'], ['output']):
                    for T in types:
                        one(io + [T, 'u'] + body)
                        for lit in ('1', '1.5', '0x10', '1e1'):
                            one(io + [T, 'u', '=', lit] + body)
                one(['input', 'float', 'u', 'output', 'float', 'out'] + body)
                one(['const', 'int', 'k', '=', '2', 'input', 'float', 'u'] + body)
            for M, N in (('os', 'path'), ('os', 'foo'), ('nosuchmodule', 'X'), ('math', 'pi'), ('collections', 'OrderedDict'), ('fractions', 'Fraction'),
                         ('os', 'sep'), ('vf.msgs', 'Msg'), ('vf.msgs', 'Outer'), ('vf', 'msgs')):
                for body in (['out', '=', 'x', '>=', '1'], ['out', '=', 'p', '>=', '1'], ['out', '=', 'p.x', '>=', '1'], ['out', '=', 'p.inner.x', '+', 'x', '>=', '1']):
                    one(['from', M, 'import', N, N, 'p'] + body)
                    one(['from', M, 'import', N] + body)
        res.sample({'text': 'const int k = 2.5 out = x >= k', 'verdict': 'derivable: must parse or be refused with RTAMTException'}, 1)
    elif shard['mode'] == 'literals':
        for lit in LITERALS + HUGE_LITERALS:
            for words in (['out', '=', 'x', '>=', lit], ['out', '=', lit], ['out', '=', 'abs', '(', 'x', '-', lit, ')', '<=', lit],
                          ['out', '=', 'once', '[', '0', ',', lit, ']', 'x'], ['out', '=', 'always', '[', lit, ':', '1000', ']', 'x'],
                          ['out', '=', 'x', 'since', '[', lit, 's', ',', lit, 's', ']', 'y'], ['out', '=', 'pow', '(', 'x', ',', lit, ')', '>=', '0']):
                one(words)
        res.sample({'text': 'out = x >= 0x10', 'verdict': 'derivable (hex IntegerLiteral): must parse or be refused with RTAMTException'}, 1)
    else:
        for op in ('once', 'always', 'since', 'until', 'unless'):
            for a, b in itertools.product(('0', '1', '2', '3', '1.5'), repeat=2):
                for ua, ub in (('', ''), ('s', 's'), ('ms', 's'), ('', 'ms'), ('s', '')):
                    iv = ['['] + [a] + ([ua] if ua else []) + [','] + [b] + ([ub] if ub else []) + [']']
                    words = ['out', '='] + (['x', op] + iv + ['y'] if op in ('since', 'until', 'unless') else [op] + iv + ['x'])
                    one(words)
        for b in ('c', 'k', 'cp', 'cn', 'x', 'out'):
            for text_words in (['out', '=', 'once', '[', '0', ',', b, ']', 'x'], ['out', '=', 'always', '[', b, 's', ':', '2', 's', ']', 'x'],
                               ['out', '=', 'x', 'since', '[', b, ',', 'cp', ']', 'y'], ['out', '=', 'eventually', '[', 'cn', ',', b, ']', 'x']):
                one(text_words)
        for ident in ('z', 'z.f', 'x.f', 'out', 'zz9', '_u', '$v'):
            one(['out', '=', ident, '>=', '1'])
            one(['out', '=', 'once', ident])
        res.sample({'text': 'out = once [ 3 , 1 ] x', 'verdict': 'must be rejected (begin > end)'}, 1)


def replay(case):
    if case.get('mode') == 'sequences':
        m, _ = run_sequence(case['ops'])
        return [m] if m else []
    if case.get('mode') == 'nesting':
        m, _ = nesting_verdict(case['construct'], case['depth'])
        return [m] if m else []
    m, _ = judge_words(case['words'], case.get('text'), case.get('skipped', False))
    return [m] if m else []


def finalize(agg, outcomes, flags, tier):
    from ..runner import Broken
    probs = grammar.selfcheck()
    if probs:
        raise Broken('grammar model out of date: ' + '; '.join(probs))
    if outcomes.get('accepted', 0) < 100 or outcomes.get('rejected', 0) < 1000:
        raise Broken('vacuous: %r' % dict(outcomes))
    return {'accepted': outcomes.get('accepted'), 'rejected_cleanly': outcomes.get('rejected')}
