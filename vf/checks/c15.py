"""C15 - syntactic variants and documented sugar denote the same monitor (engine E1)."""
import itertools
import sys

from .. import formula as F
from .. import refsem
from .. import impl
from .. import spelling as S

ID = 'C15'
LEVEL = 'exploration'
RULE = ('all formulas with <=2 operators (+ arithmetic/predicate nestings) x all spelling variants: operator aliases (two alias assignments per formula so '
        'that every alias of every operator occurs), interval separators , and :, 0-2 redundant parenthesis levels around every operand, with/without '
        'trailing ; and assertion head, the MINIMALLY parenthesised spelling derived from the alternative order of StlParser.g4 (read at run time), and the '
        'LTL front end for untimed formulas; every variant must parse and return, on all traces up to length 3, the values of the fully parenthesised '
        'keyword spelling (which must equal the reference rho, so grouping follows the grammar); unless[a,b] must equal always[0,b] p or p until[a,b] q; '
        'non-trivial = variant whose text differs from the canonical spelling and whose reference output is not constant +-inf')
ASSUMPTIONS = ['the precedence model is read from the order of the alternatives in StlParser.g4; values V3/{-1,2}',
               'identical results on all traces up to length 3 are taken as "same monitor"; identical spec_print() is used as a fast path only']


def formula_set(tier):
    quick = tier == 'quick'
    I = ((0, 1), (1, 2)) if quick else F.I_QUICK
    U = F.unary_ops(I)
    B = F.binary_ops(I)
    X, Y = F.X, F.Y
    leaves = [(F.PX, F.PY, X)] if quick else [(F.PX, F.PY, X), (X, Y, F.PX)]
    fs = list(F.F(2, U, B, leaves))
    # arithmetic / predicate grouping
    ar = [('pred', '>=', ('-', X, Y), F.C0), ('pred', '>=', ('-', ('-', X, Y), F.C1), F.C0), ('pred', '>=', ('-', X, ('-', Y, F.C1)), F.C0),
          ('pred', '<=', ('+', X, ('*', Y, F.C2)), F.C1), ('pred', '<=', ('*', ('+', X, Y), F.C2), F.C1), ('pred', '>', ('/', X, ('*', Y, F.C2)), F.C0),
          ('pred', '>=', ('neg', ('-', X, Y)), F.C0), ('pred', '>=', ('-', ('neg', X), Y), F.C0), ('neg', ('neg', X)), ('-', X, ('neg', Y))]
    for a in ar:
        fs += [a, ('always', None, a), ('prev', a), ('until', None, F.PX, a), ('and', a, F.PY), ('not', a), ('once', (0, 1), a)]
    # long unparenthesised chains of one connective (the minimal spelling of a left-deep tree has no parentheses at all)
    fs += F.chain_formulas(4) + F.chain_formulas(5) + ([] if quick else F.chain_formulas(6))
    X3 = ('pred', '>', ('-', ('-', ('-', X, Y), F.C1), F.C2), F.C0)
    fs += [X3, ('pred', '>', ('/', ('/', ('/', X, F.C2), F.C2), F.C2), Y), ('pred', '<=', ('+', ('+', ('+', X, Y), F.C1), X), F.C2)]
    out, seen = [], set()
    for f in fs:
        if f not in seen:
            seen.add(f)
            out.append(f)
    return out


def unless_unit_cases():
    """(unless text, expansion text): every unit spelling of [a,b] (as in C08) written identically on both sides"""
    from . import c08
    out = []
    for (a, b) in ((0, 1), (1, 2), (1, 1), (0, 2)):
        for du in ('s', 'ms'):
            for text_b, sb, se in c08.spellings(a * 10 ** 9, b * 10 ** 9, du):
                zero_b = c08.spellings(0, b * 10 ** 9, du)
                # the always-half: [0, b] with the same suffixes
                zb = [t for t, s1, s2 in zero_b if (s1, s2) == (sb, se)][0]
                out.append((du, 'out = (x >= 0) unless%s (y <= 1)' % text_b,
                            'out = (always%s (x >= 0)) or ((x >= 0) until%s (y <= 1))' % (zb, text_b)))
    return out


def shards(tier):
    fs = formula_set(tier)
    per = 15 if tier == 'quick' else 6
    out = [{'formulas': [F.to_json(f) for f in fs[i:i + per]]} for i in range(0, len(fs), per)]
    n = len(unless_unit_cases())
    for i in range(0, n, 25):
        out.append({'unless': [i, min(n, i + 25)]})
    return out


def unless_outcome(text, du, w):
    from ..runner import time_limit
    try:
        with time_limit(10):
            k, spec = impl.outcome(impl.build, 'dt_off', text, ['x', 'y'], unit=du)
            if k != 'ok':
                return (k,)
            k, v = impl.outcome(impl.dt_evaluate, spec, w, [i * (1 if du == 's' else 1000) for i in range(len(w['x']))])
            return (k, [p[1] for p in v] if k == 'ok' else None)
    except (TimeoutError, MemoryError):
        return ('no result within 10 s',)


def check_unless(case):
    traces = [F.trace_dict(t, ['x', 'y']) for t in F.traces(3, F.V2, 2)]
    for w in traces:
        a = unless_outcome(case['text'], case['unit'], w)
        b = unless_outcome(case['expansion'], case['unit'], w)
        if a[0].startswith('no result') or b[0].startswith('no result'):
            return '`%s`: %r, expansion `%s`: %r on %r' % (case['text'], a, case['expansion'], b, w)
        if a != b and not (a[0] == b[0] == 'ok' and refsem.same_list(a[1], b[1])):
            return '`%s` gives %r but its documented expansion `%s` gives %r on %r' % (case['text'], a, case['expansion'], b, w)
    return None


def ltl_spec(text, vs):
    from rtamt.spec.abstract_specification import AbstractOfflineSpecification
    from rtamt.syntax.ast.parser.ltl.specification_parser import LtlAst
    from rtamt.semantics.stl.discrete_time.offline.interpreter import StlDiscreteTimeOfflineInterpreter
    s = AbstractOfflineSpecification(LtlAst(), StlDiscreteTimeOfflineInterpreter())
    for v in vs:
        s.declare_var(v, 'float')
    s.spec = text
    s.parse()
    return s


def variants(f):
    """(tag, text, front_end)"""
    out = []
    for alias in (0, 1):
        for sep in (',', ':'):
            for extra in (0, 1, 2):
                body = S.spell(f, alias, sep, extra, 'full')
                out.append(('full a%d %s p%d' % (alias, sep, extra), 'out = ' + body, 'stl'))
            body = S.spell(f, alias, sep, 0, 'min')
            out.append(('min a%d %s' % (alias, sep), 'out = ' + body, 'stl'))
    body = S.spell(f, 0, ',', 0, 'min')
    out.append(('min ;', 'out = ' + body + ';', 'stl'))
    out.append(('min nohead', body, 'stl'))
    out.append(('min nohead ;', body + ' ;', 'stl'))
    out.append(('full outer parens', 'out = ((' + S.spell(f, 1, ':', 0, 'full') + '))', 'stl'))
    if not any(F.interval(g) is not None for g in F.subforms(f)):
        out.append(('ltl min', 'out = ' + S.spell(f, 0, ',', 0, 'min'), 'ltl'))
        out.append(('ltl full alias', 'out = ' + S.spell(f, 1, ',', 1, 'full'), 'ltl'))
    seen = set()
    res = []
    for tag, text, fe in out:
        if (text, fe) not in seen:
            seen.add((text, fe))
            res.append((tag, text, fe))
    return res


def build(text, vs, fe):
    if fe == 'ltl':
        return ltl_spec(text, vs)
    return impl.build('dt_off', text, vs)


def check_variant(f, vs, text, fe, canon_vals, traces):
    k, spec = impl.outcome(build, text, vs, fe)
    if k != 'ok':
        return 'variant does not parse: %s' % (spec,)
    for w, want in zip(traces, canon_vals):
        k, v = impl.outcome(impl.dt_evaluate, spec, w)
        if k != 'ok':
            return 'variant raised %s on %r' % (v, w)
        got = [p[1] for p in v]
        if not refsem.same_list(got, want):
            return 'variant evaluates to %r on %r, the fully parenthesised keyword spelling gives %r' % (got, w, want)
    return None


def run_shard(shard, tier, res):
    mod = sys.modules[__name__]
    if 'unless' in shard:
        for du, text, exp in unless_unit_cases()[shard['unless'][0]:shard['unless'][1]]:
            case = {'unless_case': True, 'unit': du, 'text': text, 'expansion': exp}
            res.evaluations += 1
            msg = check_unless(case)
            if msg:
                res.violation(mod, case, msg)
                res.outcomes['unless differs from its expansion'] += 1
            else:
                res.outcomes['same monitor'] += 1
                res.nontrivial += 1
            res.digest(text, du, msg)
        res.sample({'unless': text, 'expansion': exp}, 1)
        return
    for fj in shard['formulas']:
        f = F.from_json(fj)
        vs = sorted(F.fvars(f))
        res.formulas += 1
        canon_text = 'out = ' + F.pr(f)
        traces = [F.trace_dict(t, vs) for t in F.traces(3, F.V3 if len(vs) == 1 else F.V2, len(vs))]
        refs = [refsem.ev(f, w, len(next(iter(w.values())))) for w in traces]
        k, cspec = impl.outcome(impl.build, 'dt_off', canon_text, vs)
        case0 = {'formula': fj, 'vars': vs, 'canonical': canon_text}
        if k != 'ok':
            res.violation(mod, dict(case0, text=canon_text, front_end='stl'), 'canonical spelling does not parse: %s' % (cspec,))
            continue
        canon_vals = []
        bad = False
        for w, r in zip(traces, refs):
            v = [p[1] for p in impl.dt_evaluate(cspec, w)]
            canon_vals.append(v)
            if not refsem.same_list(v, r):
                bad = True
        if bad:
            res.flags['canonical_differs_from_reference'] += 1
            continue   # C01's business
        nonconst = any(not all(x in (refsem.INF, -refsem.INF) for x in r) for r in refs)
        for tag, text, fe in variants(f):
            res.evaluations += 1
            msg = check_variant(f, vs, text, fe, canon_vals, traces)
            if msg:
                res.violation(mod, dict(case0, text=text, front_end=fe, variant=tag), msg)
                res.outcomes[msg.split(':')[0][:40]] += 1
            else:
                res.outcomes['same monitor'] += 1
                if text != canon_text and nonconst:
                    res.nontrivial += 1
            res.digest(text, fe, msg)
        res.sample({'canonical': canon_text, 'variants': [t for _, t, _ in variants(f)][:4]}, 1)


def replay(case):
    if case.get('unless_case'):
        m = check_unless(case)
        return [m] if m else []
    f = F.from_json(case['formula'])
    vs = case['vars']
    traces = [F.trace_dict(t, vs) for t in F.traces(3, F.V3 if len(vs) == 1 else F.V2, len(vs))]
    cspec = impl.build('dt_off', case['canonical'], vs)
    canon_vals = [[p[1] for p in impl.dt_evaluate(cspec, w)] for w in traces]
    m = check_variant(f, vs, case['text'], case['front_end'], canon_vals, traces)
    return [m] if m else []


def finalize(agg, outcomes, flags, tier):
    from ..runner import Broken
    if agg['nontrivial'] < 1000:
        raise Broken('vacuous: only %d non-trivial variants' % agg['nontrivial'])
    return {'canonical_differs_from_reference': flags.get('canonical_differs_from_reference', 0)}
