"""C15 - syntactic variants and documented sugar denote the same monitor (engine E1)."""
import itertools
import sys

from .. import formula as F
from .. import refsem
from .. import impl
from .. import spelling as S

ID = 'C15'
LEVEL = 'exploration'
RULE = ('all formulas with <=2 operators (+ arithmetic/predicate nestings, + comparisons whose operands are comparisons, written with and without the parentheses the grammar makes redundant) x all spelling variants: operator aliases (two alias assignments per formula so '
        'that every alias of every operator occurs), interval separators , and :, 0-2 redundant parenthesis levels around every operand, with/without '
        'trailing ; and assertion head, white space / line ends / comments before, inside and after the text (with and without the trailing ;), the MINIMALLY parenthesised spelling derived from the alternative order of StlParser.g4 (read at run time), and the '
        'LTL front end for untimed formulas; every variant must parse and return, on all traces up to length 3, the values of the fully parenthesised '
        'keyword spelling (which must equal the reference rho, so grouping follows the grammar); unless[a,b] must equal always[0,b] p or p until[a,b] q; '
        'same-object layer: for bounded-future and past formulas all variants are given one after the other to ONE online object (spec.spec = variant; parse(); pastify(); reset(); updates) '
        'and must return what a fresh object with the canonical spelling returns; '
        'non-trivial = variant whose text differs from the canonical spelling and whose reference output is not constant +-inf')
ASSUMPTIONS = ['the precedence model is read from the order of the alternatives in StlParser.g4; values V3/{-1,2}',
               'identical results on all traces up to length 3 are taken as "same monitor"; identical spec_print() is used as a fast path only']


def formula_set(tier):
    quick = tier == 'quick'
    I = ((0, 1), (1, 2)) if quick else F.I_QUICK
    U = F.unary_ops(I)
    B = F.binary_ops(I)
    X, Y = F.X, F.Y
    leaves = [(F.PX, F.PY, X)] if quick else [(F.PX, F.PY, X), (X, Y, F.PX)]
    fs = list(F.F(2, U, B, leaves))
    # arithmetic / predicate grouping
    ar = [('pred', '>=', ('-', X, Y), F.C0), ('pred', '>=', ('-', ('-', X, Y), F.C1), F.C0), ('pred', '>=', ('-', X, ('-', Y, F.C1)), F.C0),
          ('pred', '<=', ('+', X, ('*', Y, F.C2)), F.C1), ('pred', '<=', ('*', ('+', X, Y), F.C2), F.C1), ('pred', '>', ('/', X, ('*', Y, F.C2)), F.C0),
          ('pred', '>=', ('neg', ('-', X, Y)), F.C0), ('pred', '>=', ('-', ('neg', X), Y), F.C0), ('neg', ('neg', X)), ('-', X, ('neg', Y))]
    for a in ar:
        fs += [a, ('always', None, a), ('prev', a), ('until', None, F.PX, a), ('and', a, F.PY), ('not', a), ('once', (0, 1), a)]
    # long unparenthesised chains of one connective (the minimal spelling of a left-deep tree has no parentheses at all)
    fs += F.chain_formulas(4) + F.chain_formulas(5) + ([] if quick else F.chain_formulas(6))
    X3 = ('pred', '>', ('-', ('-', ('-', X, Y), F.C1), F.C2), F.C0)
    fs += [X3, ('pred', '>', ('/', ('/', ('/', X, F.C2), F.C2), F.C2), Y), ('pred', '<=', ('+', ('+', ('+', X, Y), F.C1), X), F.C2)]
    # a comparison whose operand is itself a comparison (the grammar makes `a <= b <= c` the left-nested `(a <= b) <= c`)
    cmps = ('<=', '>=', '<', '>', '==', '!==')
    nested = []
    for k, c1 in enumerate(cmps):
        c2 = cmps[(k + 1) % len(cmps)]
        for a, b, c in ((F.C0, X, Y), (X, Y, F.C1), (Y, F.C1, X)):
            L = ('pred', c2, ('pred', c1, a, b), c)
            R = ('pred', c1, a, ('pred', c2, b, c))
            nested += [L, R, ('pred', c1, ('pred', c1, a, b), c)]
        nested += [('pred', c1, ('pred', c2, ('pred', c1, F.C0, X), Y), F.C1), ('and', ('pred', c1, ('pred', c2, F.C0, X), Y), F.PY),
                   ('always', None, ('pred', c2, ('pred', c1, X, Y), F.C0)), ('pred', c1, ('-', ('pred', c2, X, F.C0), Y), F.C0)]
    fs += nested if not quick else nested[::2]
    out, seen = [], set()
    for f in fs:
        if f not in seen:
            seen.add(f)
            out.append(f)
    return out


def unless_unit_cases():
    """(unless text, expansion text): every unit spelling of [a,b] (as in C08) written identically on both sides"""
    from . import c08
    out = []
    for (a, b) in ((0, 1), (1, 2), (1, 1), (0, 2)):
        for du in ('s', 'ms'):
            for text_b, sb, se in c08.spellings(a * 10 ** 9, b * 10 ** 9, du):
                zero_b = c08.spellings(0, b * 10 ** 9, du)
                # the always-half: [0, b] with the same suffixes
                zb = [t for t, s1, s2 in zero_b if (s1, s2) == (sb, se)][0]
                out.append((du, 'out = (x >= 0) unless%s (y <= 1)' % text_b,
                            'out = (always%s (x >= 0)) or ((x >= 0) until%s (y <= 1))' % (zb, text_b)))
    return out


def same_object_set(tier):
    """bounded-future formulas (pastify() rewrites them) and past formulas whose variants are parsed one after the other on ONE online object"""
    fs = [f for f in formula_set(tier) if not F.is_temporal_unbounded_future(f) and F.size(f) <= 2 and len(F.fvars(f)) >= 1]
    fut = [f for f in fs if F.has_op(f, F.FUTURE)]
    past = [f for f in fs if not F.has_op(f, F.FUTURE)]
    px, py, X, Y = F.PX, F.PY, F.X, F.Y
    extra = [('implies', X, ('unless', (1, 2), px, py)), ('and', Y, ('eventually', (1, 2), X)), ('or', ('next', ('next', px)), X), ('iff', X, ('until', (0, 1), Y, px))]
    step_f, step_p = (12, 40) if tier == 'quick' else (3, 10)
    return extra + fut[::step_f] + past[::step_p]


def run_same_object(res, mod, f, tier):
    """one online specification object is given every variant in turn: spec.spec = variant; parse(); pastify(); reset(); then a run of update()
    calls.  Every run must return what a fresh object with the fully parenthesised keyword spelling returns"""
    from . import c03
    vs = sorted(F.fvars(f))
    fj = F.to_json(f)
    canon_text = 'out = ' + F.pr(f)
    traces = [t for t in F.traces(4, F.V2, len(vs)) if len(t) == 4][::(3 if len(vs) == 2 else 1)]
    if c03.site({'formula': fj, 'pastify': True}):
        return
    want = []
    for t in traces:
        o = impl.build('dt_on', canon_text, vs, pastify=True)
        want.append([impl.outcome(impl.dt_update, o, i, dict(zip(vs, e))) for i, e in enumerate(t)])
    spec = impl.build('dt_on', canon_text, vs, pastify=True)
    impl.outcome(impl.dt_update, spec, 0, dict(zip(vs, traces[0][0])))
    res.formulas += 1
    seq = [v for v in variants(f) if v[2] == 'stl']
    for vi, (tag, text, fe) in enumerate(seq):
        case = {'same_object': True, 'formula': fj, 'vars': vs, 'canonical': canon_text, 'texts': [t for _, t, _ in seq[:vi + 1]]}
        spec.spec = text
        k, v = impl.outcome(spec.parse)
        if k == 'ok':
            k, v = impl.outcome(spec.pastify)
        if k == 'ok':
            k, v = impl.outcome(spec.reset)
        res.evaluations += 1
        if k != 'ok':
            res.violation(mod, case, 'variant %r given to an object that held other variants before: parse()/pastify()/reset() raised %s' % (text, v))
            res.outcomes['same object: raised'] += 1
            return
        msg = None
        for t, w in zip(traces, want):
            got = [impl.outcome(impl.dt_update, spec, i, dict(zip(vs, e))) for i, e in enumerate(t)]
            if explore_snapshot(got) != explore_snapshot(w):
                msg = ('variant %r parsed on an object that held %d other variants before returns %r on %r; a fresh object with the canonical spelling returns %r'
                       % (text, vi + 1, [g[1] for g in got], [list(e) for e in t], [g[1] for g in w]))
                break
            k, v = impl.outcome(spec.reset)
            if k != 'ok':
                msg = 'reset() raised %s' % (v,)
                break
        if msg:
            res.violation(mod, case, msg)
            res.outcomes['same object: differs'] += 1
            return
        res.outcomes['same monitor'] += 1
        res.flags['same_object_variants'] += 1
        res.nontrivial += 1
        res.digest(text, 'same-object', msg)
    res.sample({'canonical': canon_text, 'variants_on_one_object': [t for _, t, _ in seq][:4]}, 1)


def explore_snapshot(x):
    from .. import explore
    return explore.snapshot(x)


def shards(tier):
    fs = formula_set(tier)
    per = 15 if tier == 'quick' else 6
    out = [{'formulas': [F.to_json(f) for f in fs[i:i + per]]} for i in range(0, len(fs), per)]
    so = same_object_set(tier)
    out += [{'same_object': [F.to_json(f) for f in so[i:i + 4]]} for i in range(0, len(so), 4)]
    n = len(unless_unit_cases())
    for i in range(0, n, 25):
        out.append({'unless': [i, min(n, i + 25)]})
    return out


def unless_outcome(text, du, w):
    from ..runner import time_limit
    try:
        with time_limit(10):
            k, spec = impl.outcome(impl.build, 'dt_off', text, ['x', 'y'], unit=du)
            if k != 'ok':
                return (k,)
            k, v = impl.outcome(impl.dt_evaluate, spec, w, [i * (1 if du == 's' else 1000) for i in range(len(w['x']))])
            return (k, [p[1] for p in v] if k == 'ok' else None)
    except (TimeoutError, MemoryError):
        return ('no result within 10 s',)


def check_unless(case):
    traces = [F.trace_dict(t, ['x', 'y']) for t in F.traces(3, F.V2, 2)]
    for w in traces:
        a = unless_outcome(case['text'], case['unit'], w)
        b = unless_outcome(case['expansion'], case['unit'], w)
        if a[0].startswith('no result') or b[0].startswith('no result'):
            return '`%s`: %r, expansion `%s`: %r on %r' % (case['text'], a, case['expansion'], b, w)
        if a != b and not (a[0] == b[0] == 'ok' and refsem.same_list(a[1], b[1])):
            return '`%s` gives %r but its documented expansion `%s` gives %r on %r' % (case['text'], a, case['expansion'], b, w)
    return None


def ltl_spec(text, vs):
    from rtamt.spec.abstract_specification import AbstractOfflineSpecification
    from rtamt.syntax.ast.parser.ltl.specification_parser import LtlAst
    from rtamt.semantics.stl.discrete_time.offline.interpreter import StlDiscreteTimeOfflineInterpreter
    s = AbstractOfflineSpecification(LtlAst(), StlDiscreteTimeOfflineInterpreter())
    for v in vs:
        s.declare_var(v, 'float')
    s.spec = text
    s.parse()
    return s


def variants(f):
    """(tag, text, front_end)"""
    out = []
    for alias in (0, 1):
        for sep in (',', ':'):
            for extra in (0, 1, 2):
                body = S.spell(f, alias, sep, extra, 'full')
                out.append(('full a%d %s p%d' % (alias, sep, extra), 'out = ' + body, 'stl'))
            body = S.spell(f, alias, sep, 0, 'min')
            out.append(('min a%d %s' % (alias, sep), 'out = ' + body, 'stl'))
    body = S.spell(f, 0, ',', 0, 'min')
    out.append(('min ;', 'out = ' + body + ';', 'stl'))
    out.append(('min nohead', body, 'stl'))
    out.append(('min nohead ;', body + ' ;', 'stl'))
    out.append(('full outer parens', 'out = ((' + S.spell(f, 1, ':', 0, 'full') + '))', 'stl'))
    if not any(F.interval(g) is not None for g in F.subforms(f)):
        out.append(('ltl min', 'out = ' + S.spell(f, 0, ',', 0, 'min'), 'ltl'))
        out.append(('ltl full alias', 'out = ' + S.spell(f, 1, ',', 1, 'full'), 'ltl'))
    # layout: white space, line ends and comments around and inside the text (all layouts for every fifth formula, three of them for the others)
    t0 = 'out = ' + S.spell(f, 0, ',', 0, 'min')
    lay = layouts(t0)
    pick = range(len(lay)) if len(t0) % 5 == 0 else [(len(t0) + j * 5) % len(lay) for j in range(3)]
    for j in pick:
        out.append(('layout %s' % lay[j][0], lay[j][1], 'stl'))
    seen = set()
    res = []
    for tag, text, fe in out:
        if (text, fe) not in seen:
            seen.add((text, fe))
            res.append((tag, text, fe))
    return res


def layouts(t):
    """(name, text): the same token sequence laid out differently; ';' is the optional trailing semicolon of the last assertion"""
    return [('newline after', t + '\n'), ('blank after', t + ' '), ('newline before', '\n' + t), ('; newline', t + ';\n'), ('; blank', t + '; '),
            ('; tab newlines', t + ';\t\n\n'), ('line comment, no ;', t + ' // end'), ('; line comment', t + '; // end'),
            ('block comment, no ;', t + ' /* end */'), ('; block comment', t + '; /* end */'), ('block comment before', '/* head */ ' + t),
            ('line comment before', '// head\n' + t + ';'), ('one token per line', t.replace(' ', '\n')), ('tabs', t.replace(' ', '\t')),
            ('; CR LF', t + ';\r\n'), ('comment inside', t.replace(' ', ' /* c */ ', 1)), ('line comment then ;', t + ' // end\n;')]


def build(text, vs, fe):
    if fe == 'ltl':
        return ltl_spec(text, vs)
    return impl.build('dt_off', text, vs)


def check_variant(f, vs, text, fe, canon_vals, traces):
    k, spec = impl.outcome(build, text, vs, fe)
    if k != 'ok':
        return 'variant does not parse: %s' % (spec,)
    for w, want in zip(traces, canon_vals):
        k, v = impl.outcome(impl.dt_evaluate, spec, w)
        if k != 'ok':
            return 'variant raised %s on %r' % (v, w)
        got = [p[1] for p in v]
        if not refsem.same_list(got, want):
            return 'variant evaluates to %r on %r, the fully parenthesised keyword spelling gives %r' % (got, w, want)
    return None


def run_shard(shard, tier, res):
    mod = sys.modules[__name__]
    if 'unless' in shard:
        for du, text, exp in unless_unit_cases()[shard['unless'][0]:shard['unless'][1]]:
            case = {'unless_case': True, 'unit': du, 'text': text, 'expansion': exp}
            res.evaluations += 1
            msg = check_unless(case)
            if msg:
                res.violation(mod, case, msg)
                res.outcomes['unless differs from its expansion'] += 1
            else:
                res.outcomes['same monitor'] += 1
                res.nontrivial += 1
            res.digest(text, du, msg)
        res.sample({'unless': text, 'expansion': exp}, 1)
        return
    for fj in shard.get('same_object', ()):
        run_same_object(res, mod, F.from_json(fj), tier)
    for fj in shard.get('formulas', ()):
        f = F.from_json(fj)
        vs = sorted(F.fvars(f))
        res.formulas += 1
        canon_text = 'out = ' + F.pr(f)
        traces = [F.trace_dict(t, vs) for t in F.traces(3, F.V3 if len(vs) == 1 else F.V2, len(vs))]
        refs = [refsem.ev(f, w, len(next(iter(w.values())))) for w in traces]
        k, cspec = impl.outcome(impl.build, 'dt_off', canon_text, vs)
        case0 = {'formula': fj, 'vars': vs, 'canonical': canon_text}
        if k != 'ok':
            res.violation(mod, dict(case0, text=canon_text, front_end='stl'), 'canonical spelling does not parse: %s' % (cspec,))
            continue
        canon_vals = []
        bad = False
        for w, r in zip(traces, refs):
            v = [p[1] for p in impl.dt_evaluate(cspec, w)]
            canon_vals.append(v)
            if not refsem.same_list(v, r):
                bad = True
        if bad:
            res.flags['canonical_differs_from_reference'] += 1
            continue   # C01's business
        nonconst = any(not all(x in (refsem.INF, -refsem.INF) for x in r) for r in refs)
        for tag, text, fe in variants(f):
            res.evaluations += 1
            msg = check_variant(f, vs, text, fe, canon_vals, traces)
            if msg:
                res.violation(mod, dict(case0, text=text, front_end=fe, variant=tag), msg)
                res.outcomes[msg.split(':')[0][:40]] += 1
            else:
                res.outcomes['same monitor'] += 1
                if text != canon_text and nonconst:
                    res.nontrivial += 1
            res.digest(text, fe, msg)
        res.sample({'canonical': canon_text, 'variants': [t for _, t, _ in variants(f)][:4]}, 1)


def replay_same_object(case):
    vs = case['vars']
    traces = [t for t in F.traces(4, F.V2, len(vs)) if len(t) == 4][::(3 if len(vs) == 2 else 1)]
    want = []
    for t in traces:
        o = impl.build('dt_on', case['canonical'], vs, pastify=True)
        want.append([impl.outcome(impl.dt_update, o, i, dict(zip(vs, e))) for i, e in enumerate(t)])
    spec = impl.build('dt_on', case['canonical'], vs, pastify=True)
    impl.outcome(impl.dt_update, spec, 0, dict(zip(vs, traces[0][0])))
    for text in case['texts']:
        spec.spec = text
        for step in (spec.parse, spec.pastify, spec.reset):
            k, v = impl.outcome(step)
            if k != 'ok':
                return ['%r: raised %s' % (text, v)]
        for t, w in zip(traces, want):
            got = [impl.outcome(impl.dt_update, spec, i, dict(zip(vs, e))) for i, e in enumerate(t)]
            if explore_snapshot(got) != explore_snapshot(w):
                return ['%r returns %r on %r, canonical on a fresh object %r' % (text, got, t, w)]
            spec.reset()
    return []


def replay(case):
    if case.get('same_object'):
        return replay_same_object(case)
    if case.get('unless_case'):
        m = check_unless(case)
        return [m] if m else []
    f = F.from_json(case['formula'])
    vs = case['vars']
    traces = [F.trace_dict(t, vs) for t in F.traces(3, F.V3 if len(vs) == 1 else F.V2, len(vs))]
    cspec = impl.build('dt_off', case['canonical'], vs)
    canon_vals = [[p[1] for p in impl.dt_evaluate(cspec, w)] for w in traces]
    m = check_variant(f, vs, case['text'], case['front_end'], canon_vals, traces)
    return [m] if m else []


def finalize(agg, outcomes, flags, tier):
    from ..runner import Broken
    if agg['nontrivial'] < 1000:
        raise Broken('vacuous: only %d non-trivial variants' % agg['nontrivial'])
    return {'canonical_differs_from_reference': flags.get('canonical_differs_from_reference', 0)}
