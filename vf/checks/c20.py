"""C20 - explanations of a violation are a sufficient cause (engine E1)."""
import itertools
import sys

from .. import formula as F
from .. import refsem
from .. import impl

ID = 'C20'
LEVEL = 'exploration'
RULE = ('all formulas of the fragment the explainer supports (no since/until; <=2 operators, 3-chains) over bare-variable and variable-vs-constant atoms '
        'x all traces of length 1..4 over {-1,1}; for every trace that violates the formula at time 0 (real evaluate() + explain()), ALL re-assignments '
        'over {-1,1} of the (variable, sample) positions that are NOT reported must still violate the formula at time 0 (reference rho < 0); for a '
        'satisfied trace nothing may be reported for the input variables; one specification object explains all traces of a formula in turn, and after every second explanation '
        'the harness overwrites the interval lists it was handed (as a caller converting them in place would); period layer: bounded operators under sampling periods and default units in which one bound unit is not one sample '
        '(500 ms / s, 1 ms / ms with bounds in s, ...), same oracle with the bounds converted to samples; non-trivial = violated case with at least one free position')
ASSUMPTIONS = ['sample values restricted to {-1,1} (so every robustness is non-zero); reference rho from vf/refsem.py decides violation of the re-assigned traces']

EX_U = ('not', 'prev', 's_prev', 'next', 's_next', 'rise', 'fall', 'once', 'historically', 'eventually', 'always')
EX_B = ('and', 'or', 'implies', 'iff', 'xor')


POLAR = ('and', 'or', 'implies', 'once', 'historically', 'eventually', 'always')


def site(case):
    """open finding: iff/xor/rise/fall need their operands explained with a polarity that varies from sample to sample, but the explainer
    hands one sat/unsat flag down; whenever such an operand has a polarity-dependent explanation (and/or/implies/temporal) the cause may be incomplete"""
    try:
        f = F.from_json(case['formula'])
    except Exception:
        return None
    for g in F.subforms(f):
        if g[0] in ('iff', 'xor', 'rise', 'fall'):
            for c in F.children(g):
                if F.has_op(c, POLAR):
                    return 'C20-mixed-polarity-operand'
    # second open finding: a comparison (or arithmetic node) over a polarity-dependent operand - the explainer hands the sat/unsat flag of the
    # comparison down unchanged, whatever the direction of the comparison and the threshold are
    for g in F.subforms(f):
        if g[0] == 'pred' or g[0] in F.ARITH1 + F.ARITH2 + F.ARITHF2:
            for c in F.children(g):
                if isinstance(c, tuple) and F.has_op(c, POLAR):
                    return 'C20-operator-below-comparison'
    return None


def formula_set(tier):
    quick = tier == 'quick'
    I = F.I_FULL
    U = F.unary_ops(I, ops=EX_U)
    B = F.binary_ops(I, ops=EX_B, unless=False)
    leaves = [(F.X, F.Y, F.X), (F.PX, ('pred', '<=', F.Y, F.C0), F.X)]
    if not quick:
        leaves.append((('pred', '>', F.X, F.Y), F.X, F.Y))
    fs = list(F.F(2, U, B, leaves))
    Uc = F.unary_ops(((0, 1), (1, 2)) if quick else F.I_QUICK, ops=EX_U)
    fs += list(F.chains(3, Uc, F.X))
    # arithmetic below the predicates (the explainer walks through every arithmetic node down to the variables)
    X, Y = F.X, F.Y
    ar = [('pred', '>=', ('+', X, Y), F.C0), ('pred', '<=', ('/', X, F.C2), Y), ('pred', '>', ('abs', ('-', X, Y)), F.C1),
          ('pred', '>=', ('*', X, F.C2), F.C0), ('pred', '<=', ('neg', X), Y), ('pred', '>=', ('pow', F.C2, X), F.C1), ('pred', '<', ('exp', X), ('sqrt', ('abs', Y)))]
    U1 = F.unary_ops(F.I_QUICK, ops=EX_U)
    B1 = F.binary_ops(F.I_QUICK, ops=EX_B, unless=False)
    for i in range(0, len(ar) - 1, 2):
        fs += list(F.F(1, U1, B1, [(ar[i], ar[i + 1], F.X)]))
    fs += [ar[-1], ('always', (0, 1), ar[-1]), ('not', ar[-1])]
    # the same variable reached twice through different temporal windows (nested / overlapping / disjoint reported intervals)
    Ut = F.unary_ops(((0, 3), (1, 2), (0, 1), (2, 3)), ops=('eventually', 'always', 'once', 'historically'))
    for u in Ut:
        for v in Ut:
            for b in ('and', 'or', 'implies'):
                fs.append((b, F.ap1(u, F.X), F.ap1(v, F.X)))
    # a comparison whose operand is a temporal / Boolean expression (legal for the grammar): the cause has to respect the threshold and the
    # direction of the comparison, not only the sign of the operand
    for g in (('always', (0, 2), X), ('eventually', (0, 1), X), ('once', (0, 1), ('next', X)), ('and', X, Y), ('or', X, ('next', Y)), ('not', X), ('next', X)):
        for c, k in (('>=', F.C0), ('<=', F.C0), ('<', F.C1), ('>', ('const', -1.0)), ('<=', Y)):
            fs += [('pred', c, g, k), ('not', ('pred', c, g, k))]
    out, seen = [], set()
    for f in fs:
        if f not in seen:
            seen.add(f)
            out.append(f)
    return out


def shards(tier):
    fs = formula_set(tier)
    per = 20 if tier == 'quick' else 8
    out = [{'formulas': [F.to_json(f) for f in fs[i:i + per]]} for i in range(0, len(fs), per)]
    deep = [f for f in F.deep_formulas(EX_U, (), two_var=False) if f[2] != F.PX and not F.has_op(f, ('rise',))]
    deep = (deep[::3] if tier == 'quick' else deep) + [('always', None, F.X), ('eventually', None, F.X), ('historically', None, ('next', F.X)),
                                                       ('eventually', (7, 8), F.X), ('always', (0, 8), ('or', F.X, ('next', F.X)))]
    out += [{'formulas': [F.to_json(f) for f in deep[i:i + 2]], 'deep': True} for i in range(0, len(deep), 2)]
    out += [{'formulas': [], 'period': i} for i in range(len(period_formulas()))]
    return out


def period_formulas():
    """bounded operators of the explainer fragment; their windows in samples depend on the sampling period and the default unit"""
    X, Y = F.X, F.Y
    return [('always', (0, 2), X), ('eventually', (1, 2), X), ('once', (0, 1), ('next', ('next', X))), ('historically', (0, 1), ('eventually', (0, 1), X)),
            ('or', ('always', (0, 1), X), ('eventually', (1, 2), Y)), ('implies', ('eventually', (0, 2), X), ('always', (1, 1), Y)),
            ('always', (0, 1), ('or', X, ('eventually', (0, 1), Y))), ('not', ('eventually', (0, 2), ('not', X)))]


# (configuration of vf/reconf.py, unit suffix of the bounds): one bound unit is 1, 2 or 1/2 ... samples
PERIOD_CFGS = (('A', ''), ('D', ''), ('D', 's'), ('B', ''), ('B', 'ms'))


def period_case(case, spec=None):
    from .. import reconf
    f = F.from_json(case['formula'])
    vs = case['vars']
    cfg, suffix = case['cfg'], case['suffix']
    f1 = reconf.in_samples(f, cfg, suffix)
    w = case['trace']
    n = len(next(iter(w.values())))
    if spec is None:
        spec = reconf.build('dt_off', case['spec'], vs, cfg)
    k, out = impl.outcome(impl.dt_evaluate, spec, w, reconf.times(cfg, n))
    if k != 'ok':
        return 'evaluate() raised %s' % (out,), None
    k, _ = impl.outcome(spec.explain)
    if k != 'ok':
        return 'explain() raised %s' % (_,), None
    ex = spec.explainer.explanations
    r0 = out[0][1]
    ref0 = refsem.ev(f1, w, n)[0]
    if (r0 < 0) != (ref0 < 0):
        return None, 'c01'      # the robustness itself is wrong: C01/C08 business
    fixed = reported_positions(ex, vs, n)
    if r0 >= 0:
        if fixed:
            return 'the specification is satisfied at time 0 (rho %r) but %r is reported' % (r0, {v: ex.get(v) for v in vs}), None
        return None, 'sat'
    free = [(v, i) for v in vs for i in range(n) if (v, i) not in fixed]
    for alt in itertools.product(F.VBOOL, repeat=len(free)):
        w2 = {v: list(w[v]) for v in vs}
        for (v, i), val in zip(free, alt):
            w2[v][i] = val
        if refsem.ev(f1, w2, n)[0] >= 0:
            return ('sampling period %r, default unit %r (the bounds denote %s in samples): reported %r is not a sufficient cause: the trace %r coincides with the '
                    'original on all reported positions but satisfies the specification at time 0'
                    % (reconf.CONFIGS[cfg][1], reconf.CONFIGS[cfg][0], F.pr(f1), {v: ex.get(v) for v in vs}, w2)), None
    return None, ('viol', len(free))


def run_period(shard, tier, res, mod):
    from .. import reconf
    f = period_formulas()[shard['period']]
    fj = F.to_json(f)
    vs = sorted(F.fvars(f))
    res.formulas += 1
    for cfg, suffix in PERIOD_CFGS:
        f1 = reconf.in_samples(f, cfg, suffix)
        if f1 is None:
            continue
        text = 'out = ' + F.pr(f, bound=reconf.speller(suffix))
        spec = reconf.build('dt_off', text, vs, cfg)
        n = min(int(refsem.horizon(f1)) + 2, 7 if len(vs) == 1 else 4) if tier == 'quick' else min(int(refsem.horizon(f1)) + 3, 8 if len(vs) == 1 else 5)
        for t in F.traces(n, F.VBOOL, len(vs)):
            case = {'period_layer': True, 'formula': fj, 'spec': text, 'vars': vs, 'cfg': cfg, 'suffix': suffix, 'trace': F.trace_dict(t, vs)}
            res.evaluations += 1
            msg, info = period_case(case, spec)
            if msg:
                res.violation(mod, case, msg)
                res.outcomes['period: ' + msg.split(' ')[0] + ' ' + msg.split(' ')[1]] += 1
            elif info == 'sat':
                res.outcomes['satisfied, nothing reported'] += 1
            elif info == 'c01':
                res.outcomes['robustness differs from the reference (not judged here)'] += 1
            else:
                res.outcomes['violated, sufficient'] += 1
                res.flags['period_viol'] += 1
                if info[1] > 0:
                    res.nontrivial += 1
            res.digest(text, cfg, t, msg)
    res.sample({'spec': text, 'configurations': [list(c) for c in PERIOD_CFGS]}, 1)


def reported_positions(ex, vs, n):
    fixed = set()
    for v in vs:
        for iv in (ex.get(v) or []):
            a, b = int(iv[0]), int(iv[1])
            for i in range(max(0, a), min(n - 1, b) + 1):
                fixed.add((v, i))
    return fixed


def check_case(case, spec=None):
    f = F.from_json(case['formula'])
    vs = case['vars']
    w = case['trace']
    n = len(next(iter(w.values())))
    if spec is None:
        spec = impl.build('dt_off', case['spec'], vs)
        for pre in case.get('pre', []):
            impl.outcome(impl.dt_evaluate, spec, pre)
            impl.outcome(spec.explain)
            scribble(spec.explainer.explanations)
    k, out = impl.outcome(impl.dt_evaluate, spec, w)
    if k != 'ok':
        return 'evaluate() raised %s' % (out,), None
    k, _ = impl.outcome(spec.explain)
    if k != 'ok':
        return 'explain() raised %s' % (_,), None
    ex = spec.explainer.explanations
    r0 = out[0][1]
    fixed = reported_positions(ex, vs, n)
    if r0 >= 0:
        if fixed:
            return 'the specification is satisfied at time 0 (rho %r) but %r is reported' % (r0, {v: ex.get(v) for v in vs}), None
        return None, 'sat'
    free = [(v, i) for v in vs for i in range(n) if (v, i) not in fixed]
    shown = {v: copy_intervals(ex.get(v)) for v in vs}
    if case.get('scribble'):
        scribble(ex)
    for alt in itertools.product(F.VBOOL, repeat=len(free)):
        w2 = {v: list(w[v]) for v in vs}
        for (v, i), val in zip(free, alt):
            w2[v][i] = val
        if refsem.ev(f, w2, n)[0] >= 0:
            return ('reported %r is not a sufficient cause: the trace %r coincides with the original on all reported positions but satisfies the specification at time 0'
                    % (shown, w2)), None
    return None, ('viol', len(free))


def copy_intervals(x):
    return [list(i) for i in x] if isinstance(x, list) else x


def scribble(ex):
    """the explanations dictionary is what explain() hands to the caller; a caller that rewrites the interval lists it was given (say, into
    time-stamps) must not influence the next explanation"""
    for k in list(ex.keys()):
        v = ex[k]
        if isinstance(v, list):
            for iv in v:
                if isinstance(iv, list):
                    for j in range(len(iv)):
                        iv[j] = 77
            v.append([77, 78])


def run_shard(shard, tier, res):
    mod = sys.modules[__name__]
    if 'period' in shard:
        return run_period(shard, tier, res, mod)
    for fj in shard['formulas']:
        f = F.from_json(fj)
        vs = sorted(F.fvars(f))
        text = 'out = ' + F.pr(f)
        res.formulas += 1
        try:
            spec = impl.build('dt_off', text, vs)
        except Exception as e:
            res.violation(mod, {'formula': fj, 'spec': text, 'vars': vs, 'trace': {}}, 'parse() raised %s' % (e,))
            continue
        n = 4
        if len(vs) == 1 and F.size(f) == 3:
            n = 5
        if shard.get('deep'):
            n = 9 if tier == 'quick' else 10
        if tier != 'quick' and len(vs) == 1:
            n = 6
        prev = None
        for ti, t in enumerate(F.traces(n, F.VBOOL, len(vs))):
            w = F.trace_dict(t, vs)
            case = {'formula': fj, 'spec': text, 'vars': vs, 'trace': w, 'scribble': ti % 2 == 1}
            res.evaluations += 1
            msg, info = check_case(case, spec)
            if msg:
                fresh, _ = check_case(case)
                if fresh is None and prev is not None:
                    case['pre'] = [prev]
                    again, _ = check_case(case)
                    if again is None:
                        case['pre'] = []
                        msg += ' (only on a re-used specification object)'
                res.violation(mod, case, msg)
                res.outcomes[msg.split(' ')[0] + ' ' + msg.split(' ')[1]] += 1
            else:
                if info == 'sat':
                    res.outcomes['satisfied, nothing reported'] += 1
                    res.flags['sat'] += 1
                else:
                    res.outcomes['violated, sufficient'] += 1
                    res.flags['viol'] += 1
                    if info[1] > 0:
                        res.nontrivial += 1
            if ti == 9:
                res.sample({'spec': text, 'trace': w, 'explanations': {v: spec.explainer.explanations.get(v) for v in vs}}, 1)
            res.digest(text, ti, msg)
            prev = w


def replay(case):
    if case.get('period_layer'):
        m, _ = period_case(case)
        return [m] if m else []
    m, _ = check_case(case)
    return [m] if m else []


def finalize(agg, outcomes, flags, tier):
    from ..runner import Broken
    if agg['nontrivial'] < 1000 or not flags.get('sat') or not flags.get('viol'):
        raise Broken('vacuous: %d violated cases with free positions, sat=%r viol=%r' % (agg['nontrivial'], flags.get('sat'), flags.get('viol')))
    return {'violated_cases': flags.get('viol'), 'satisfied_cases': flags.get('sat')}
