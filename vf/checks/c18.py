"""C18 - temporal dualities and expansion laws hold in every monitor (engine E1)."""
import itertools
import sys

from .. import formula as F
from .. import refsem
from .. import dref
from .. import impl
from .. import kinds

ID = 'C18'
LEVEL = 'exploration'
RULE = ('for operands p, q from a finite set (atoms and one-operator formulas) and all bounds from I x I: both sides of each law are monitored by the '
        'SAME real monitor kind on all traces (discrete: all traces up to length n; dense: grid step signals, online kinds all-at-once and one sample '
        'at a time) and must return identical signals (dense: identical functions on the grid of the domain); the laws are first checked on the '
        'reference over the same space (a failure there is reported as a broken check, not as a finding); recovery layer: past laws whose operand divides by y, both sides fed '
        'the same history samples + one sample that update() rejects (y = 0) + reset() + all traces up to length 3: after reset() the sides must agree again; non-trivial = the two sides are not '
        'constant +-inf on the case')
ASSUMPTIONS = ['laws: not F[a,b] p = G[a,b] not p; not O[a,b] p = H[a,b] not p (bounded, unbounded); p -> q = not p or q; F[a,b]F[c,d] p = F[a+c,b+d] p (also once); '
               'discrete: p S q = q or (p and sY(p S q)), p U q = q or (p and sX(p U q))',
               'online discrete kinds monitor future laws after pastify(); dense online kinds only past laws']


def operands(tier):
    px, py, X, Y = F.PX, F.PY, F.X, F.Y
    ps = [px, X, ('once', (0, 1), px), ('not', px), ('and', px, py), ('historically', None, X), ('eventually', (0, 1), X), ('pred', '==', X, Y),
          ('once', None, X), ('and', ('once', None, X), py), ('not', ('historically', None, X))]
    qs = [py, Y]
    if tier != 'quick':
        ps += [('since', None, X, Y), ('always', (1, 2), px), ('once', None, ('or', px, py))]
        qs += [('once', (1, 2), Y)]
    return ps, qs


def laws(tier):
    """(name, lhs, rhs, kinds)"""
    I = F.I_FULL if tier != 'quick' else F.I_QUICK + ((0, 2),)
    ps, qs = operands(tier)
    out = []
    for p in ps:
        past = 'past' if F.past_only(p) else 'future'
        for a, b in I:
            out.append(('not-eventually', ('not', ('eventually', (a, b), p)), ('always', (a, b), ('not', p)), 'future'))
            out.append(('not-once', ('not', ('once', (a, b), p)), ('historically', (a, b), ('not', p)), past))
        out.append(('not-once-unbounded', ('not', ('once', None, p)), ('historically', None, ('not', p)), past))
        out.append(('not-eventually-unbounded', ('not', ('eventually', None, p)), ('always', None, ('not', p)), 'offline'))
        for (a, b), (c, d) in itertools.product(I, I):
            out.append(('ev-ev', ('eventually', (a, b), ('eventually', (c, d), p)), ('eventually', (a + c, b + d), p), 'future'))
            out.append(('once-once', ('once', (a, b), ('once', (c, d), p)), ('once', (a + c, b + d), p), past))
        for q in qs:
            out.append(('implies', ('implies', p, q), ('or', ('not', p), q), 'past' if F.past_only(p) and F.past_only(q) else 'future'))
            if F.past_only(p):
                s = ('since', None, p, q)
                out.append(('since-expansion', s, ('or', q, ('and', p, ('s_prev', s))), 'past-discrete'))
            u = ('until', None, p, q)
            out.append(('until-expansion', u, ('or', q, ('and', p, ('s_next', u))), 'offline-discrete'))
    return out


def wide_laws():
    """the same laws with windows of 5 ... 17 samples, checked on all two-letter traces of length 10 (thorough: 12)"""
    px = F.PX
    out = []
    for a, b in ((0, 8), (1, 9), (2, 6), (0, 4), (3, 12), (0, 16)):
        out.append(('not-eventually', ('not', ('eventually', (a, b), px)), ('always', (a, b), ('not', px)), 'future'))
        out.append(('not-once', ('not', ('once', (a, b), px)), ('historically', (a, b), ('not', px)), 'past'))
    for (a, b), (c, d) in (((0, 4), (0, 4)), ((1, 3), (1, 7)), ((0, 2), (0, 6)), ((2, 5), (2, 5)), ((0, 8), (0, 8))):
        out.append(('ev-ev', ('eventually', (a, b), ('eventually', (c, d), px)), ('eventually', (a + c, b + d), px), 'future'))
        out.append(('once-once', ('once', (a, b), ('once', (c, d), px)), ('once', (a + c, b + d), px), 'past'))
    return out


def recover_laws():
    """past laws of the discrete online monitor whose operand q divides by y: a sample with y = 0 is rejected by update()"""
    px, X, Y = F.PX, F.X, F.Y
    qd = ('pred', '>=', ('/', F.C1, Y), F.C1)
    out = []
    for p in (px, ('once', (0, 1), px), X):
        s = ('since', None, p, qd)
        out.append(('since-expansion', s, ('or', qd, ('and', p, ('s_prev', s)))))
        out.append(('implies', ('implies', p, qd), ('or', ('not', p), qd)))
        out.append(('implies', ('implies', qd, p), ('or', ('not', qd), p)))
    for a, b in ((0, 1), (1, 2)):
        out.append(('not-once', ('not', ('once', (a, b), qd)), ('historically', (a, b), ('not', qd))))
        out.append(('once-once', ('once', (a, b), ('once', (0, 1), qd)), ('once', (a, b + 1), qd)))
        out.append(('not-once', ('not', ('once', (a, b), ('and', px, qd))), ('historically', (a, b), ('not', ('and', px, qd)))))
    return out


def run_recover(shard, tier, res, mod):
    """both sides of a law get the same history: some samples, one sample that update() rejects (division by zero), reset(), and then a
    trace - after reset() the two monitors must again return identical values (and the values of the reference)"""
    name, lhs, rhs = recover_laws()[shard['recover']]
    vs = ['x', 'y']
    tl, tr = 'out = ' + F.pr(lhs), 'out = ' + F.pr(rhs)
    good = [(x, y) for x in F.V2 for y in (0.5, 2.0)]
    pres = [()] + [(e,) for e in good] + [(a, b) for a in good[::3] for b in good]
    bad = (2.0, 0.0)
    posts = list(F.traces(3 if tier == 'quick' else 4, good, 1))
    posts = [tuple(e[0] for e in t) for t in posts]
    res.formulas += 1
    for pre in pres:
        for post in posts:
            res.evaluations += 1
            outs = []
            rejected = True
            for text in (tl, tr):
                sp = impl.build('dt_on', text, vs)
                for i, e in enumerate(pre):
                    impl.outcome(impl.dt_update, sp, i, dict(zip(vs, e)))
                k, v = impl.outcome(impl.dt_update, sp, len(pre), dict(zip(vs, bad)))
                rejected = rejected and k != 'ok'
                kr, vr = impl.outcome(sp.reset)
                vals = [impl.outcome(impl.dt_update, sp, i, dict(zip(vs, e))) for i, e in enumerate(post)]
                outs.append([kr] + vals)
            case = {'law': name, 'kind': 'dt_on', 'recover': shard['recover'], 'lhs': tl, 'rhs': tr, 'vars': vs, 'pastify': False,
                    'pre': [list(e) for e in pre], 'rejected': list(bad), 'data': [list(e) for e in post]}
            w = F.trace_dict(post, vs)
            ref = refsem.ev(lhs, w, len(post))
            v1 = [o[1] if o[0] == 'ok' else o for o in outs[0][1:]]
            v2 = [o[1] if o[0] == 'ok' else o for o in outs[1][1:]]
            msg = None
            if outs[0][0] != 'ok' or outs[1][0] != 'ok':
                msg = 'reset() after a rejected update() raised'
            elif not all(o[0] == 'ok' for o in outs[0][1:] + outs[1][1:]):
                msg = '%s: after %d samples, a rejected sample and reset(), update() raised: %r vs %r' % (name, len(pre), v1, v2)
            elif not refsem.same_list(v1, v2):
                msg = '%s: after %d samples, a rejected sample and reset() the two sides differ: %r vs %r' % (name, len(pre), v1, v2)
            elif not refsem.same_list(v1, ref):
                msg = '%s: after %d samples, a rejected sample and reset() both sides return %r, the reference is %r' % (name, len(pre), v1, ref)
            if msg:
                res.violation(mod, case, msg)
                res.outcomes['sides differ'] += 1
            else:
                res.outcomes['equal'] += 1
                if rejected:
                    res.flags['after_rejected_and_reset'] += 1
                if not all(x in (refsem.INF, -refsem.INF) for x in ref):
                    res.nontrivial += 1
            res.digest(name, tl, pre, post, msg)
    res.sample({'law': name, 'lhs': tl, 'rhs': tr, 'history': 'samples, a sample with y = 0 (rejected), reset(), trace'}, 1)


def shards(tier):
    ls = laws(tier)
    per = 6 if tier == 'quick' else 3
    out = [{'lo': i, 'hi': min(len(ls), i + per)} for i in range(0, len(ls), per)]
    out += [{'lo': i, 'hi': i + 1, 'wide': True} for i in range(len(wide_laws()))]
    out += [{'recover': i} for i in range(len(recover_laws()))]
    return out


def dense_ok(f):
    return not F.has_op(f, ('prev', 's_prev', 'next', 's_next', 'rise', 'fall'))


def run_shard(shard, tier, res):
    mod = sys.modules[__name__]
    quick = tier == 'quick'
    if 'recover' in shard:
        return run_recover(shard, tier, res, mod)
    ls = (wide_laws() if shard.get('wide') else laws(tier))[shard['lo']:shard['hi']]
    sig_cache = {}
    for name, lhs, rhs, where in ls:
        vs = sorted(F.fvars(lhs) | F.fvars(rhs))
        tl, tr = 'out = ' + F.pr(lhs), 'out = ' + F.pr(rhs)
        res.formulas += 1
        n = (4 if len(vs) == 1 else 3)
        values = F.V3 if len(vs) == 1 else F.V2
        traces = list(F.traces(n, values, len(vs)))
        if shard.get('wide'):
            L = 10 if quick else 12
            traces = list(F.traces(L, F.V2, len(vs), minlen=L))
        plans = [('dt_off', False)]
        if where in ('past', 'past-discrete'):
            plans.append(('dt_on', False))
        elif where == 'future':
            plans.append(('dt_on', True))
        hz = max(refsem.horizon(lhs), refsem.horizon(rhs))
        for kind, pastify in plans:
            try:
                sl = impl.build(kind, tl, vs, pastify=pastify)
                sr = impl.build(kind, tr, vs, pastify=pastify)
            except Exception as e:
                res.violation(mod, {'law': name, 'kind': kind, 'lhs': tl, 'rhs': tr, 'vars': vs, 'pastify': pastify, 'data': None},
                              'parse()/pastify() raised %s: %s' % (type(e).__name__, e))
                continue
            for t in traces:
                w = F.trace_dict(t, vs)
                res.evaluations += 1
                # the law on the reference first
                rl, rr = refsem.ev(lhs, w, len(t)), refsem.ev(rhs, w, len(t))
                if not refsem.same_list(rl, rr):
                    res.flags['reference_law_failure'] += 1
                    res.caps.append('reference violates %s on %r' % (name, w))
                    continue
                if kind == 'dt_on':
                    sl = impl.build(kind, tl, vs, pastify=pastify)
                    sr = impl.build(kind, tr, vs, pastify=pastify)
                case = {'law': name, 'kind': kind, 'lhs': tl, 'rhs': tr, 'vars': vs, 'pastify': pastify, 'data': w,
                        'h': [int(refsem.horizon(lhs)) if pastify else 0, int(refsem.horizon(rhs)) if pastify else 0]}
                k1, v1 = impl.outcome(kinds.dt_values, kind, sl, w)
                k2, v2 = impl.outcome(kinds.dt_values, kind, sr, w)
                if k1 != 'ok' or k2 != 'ok':
                    res.violation(mod, case, 'monitoring raised %s' % (v1 if k1 != 'ok' else v2,))
                    continue
                if pastify:
                    h1, h2 = int(refsem.horizon(lhs)), int(refsem.horizon(rhs))
                    if h1 != h2:
                        # the two sides may have different horizons: align on the original time axis
                        m = max(h1, h2)
                        v1 = v1[h1:][:len(t) - m]
                        v2 = v2[h2:][:len(t) - m]
                    else:
                        v1, v2 = v1[h1:], v2[h2:]
                if not refsem.same_list(v1, v2):
                    res.violation(mod, case, '%s: the two sides differ under %s%s: %r vs %r' % (name, kind, ' (pastified)' if pastify else '', v1, v2))
                    res.outcomes['sides differ'] += 1
                else:
                    res.outcomes['equal'] += 1
                    if not all(x in (refsem.INF, -refsem.INF) for x in rl):
                        res.nontrivial += 1
                res.digest(name, tl, kind, t)
        # dense kinds
        if where in ('past', 'future', 'offline') and dense_ok(lhs) and dense_ok(rhs):
            dplans = [('ct_off', 'all')]
            if where == 'past':
                dplans += [('ct_on', 'all'), ('ct_on', 'one')]
            key = len(vs)
            if key not in sig_cache:
                if key == 1:
                    sig_cache[key] = [{'x': s} for s in dref.signals_L(2, F.V3 if not quick else F.V2, 0.0)]
                else:
                    sx = dref.signals_L(2, F.V2, 0.0, max_interior=1)
                    sig_cache[key] = [{'x': a, 'y': b} for a in sx[::2] for b in sx[1::3]]
            for kind, chunk in dplans:
                for sig in sig_cache[key][::(3 if quick else 1)]:
                    sig = {v: sig[v if v in sig else 'x'] for v in vs}
                    res.evaluations += 1
                    case = {'law': name, 'kind': kind, 'chunk': chunk, 'lhs': tl, 'rhs': tr, 'vars': vs, 'pastify': False,
                            'data': {v: [list(p) for p in s] for v, s in sig.items()}}
                    try:
                        sl = impl.build(kind, tl, vs)
                        sr = impl.build(kind, tr, vs)
                    except Exception as e:
                        res.violation(mod, case, 'parse() raised %s: %s' % (type(e).__name__, e))
                        break
                    k1, v1 = impl.outcome(kinds.ct_samples, kind, sl, sig, chunk)
                    k2, v2 = impl.outcome(kinds.ct_samples, kind, sr, sig, chunk)
                    if k1 != 'ok' or k2 != 'ok':
                        res.violation(mod, case, 'monitoring raised %s' % (v1 if k1 != 'ok' else v2,))
                        continue
                    tend = max(s[-1][0] for s in sig.values())
                    if kind == 'ct_on':
                        # compare where both outputs are defined
                        if not v1 or not v2:
                            continue
                        tend = min(v1[-1][0], v2[-1][0])
                    times = dref.query_times(0.0, tend)
                    bad = [t for t in times if not refsem.same(dref.stepval(v1, t), dref.stepval(v2, t))]
                    if bad:
                        res.violation(mod, case, '%s: the two sides differ under %s (%s) at t=%r: %r vs %r'
                                      % (name, kind, chunk, bad[0], dref.stepval(v1, bad[0]), dref.stepval(v2, bad[0])))
                        res.outcomes['sides differ'] += 1
                    else:
                        res.outcomes['equal'] += 1
                        if not all(dref.stepval(v1, t) in (refsem.INF, -refsem.INF) for t in times):
                            res.nontrivial += 1
                    res.digest(name, tl, kind, chunk, sorted(sig.items()))
        res.sample({'law': name, 'lhs': tl, 'rhs': tr, 'kinds': [k for k, _ in plans]}, 1)


def replay(case):
    vs = case['vars']
    kind = case['kind']
    if 'recover' in case:
        outs = []
        for text in (case['lhs'], case['rhs']):
            sp = impl.build('dt_on', text, vs)
            for i, e in enumerate(case['pre']):
                impl.outcome(impl.dt_update, sp, i, dict(zip(vs, e)))
            impl.outcome(impl.dt_update, sp, len(case['pre']), dict(zip(vs, case['rejected'])))
            impl.outcome(sp.reset)
            outs.append([impl.outcome(impl.dt_update, sp, i, dict(zip(vs, e))) for i, e in enumerate(case['data'])])
        return [] if outs[0] == outs[1] else ['%s: sides differ after a rejected sample and reset(): %r vs %r' % (case['law'], outs[0], outs[1])]
    if kind.startswith('dt'):
        sl = impl.build(kind, case['lhs'], vs, pastify=case['pastify'])
        sr = impl.build(kind, case['rhs'], vs, pastify=case['pastify'])
        w = case['data']
        v1 = kinds.dt_values(kind, sl, w); v2 = kinds.dt_values(kind, sr, w)
        if case['pastify']:
            h1, h2 = case['h']
            m = max(h1, h2)
            n = len(v1)
            v1 = v1[h1:][:n - m]
            v2 = v2[h2:][:n - m]
        return [] if refsem.same_list(v1, v2) else ['%s: sides differ: %r vs %r' % (case['law'], v1, v2)]
    sig = {v: [tuple(p) for p in s] for v, s in case['data'].items()}
    sl = impl.build(kind, case['lhs'], vs); sr = impl.build(kind, case['rhs'], vs)
    v1 = kinds.ct_samples(kind, sl, sig, case.get('chunk', 'all')); v2 = kinds.ct_samples(kind, sr, sig, case.get('chunk', 'all'))
    tend = max(s[-1][0] for s in sig.values())
    if kind == 'ct_on' and v1 and v2:
        tend = min(v1[-1][0], v2[-1][0])
    bad = [t for t in dref.query_times(0.0, tend) if not refsem.same(dref.stepval(v1, t), dref.stepval(v2, t))]
    return ['%s: sides differ at t=%r' % (case['law'], bad[0])] if bad else []


def finalize(agg, outcomes, flags, tier):
    from ..runner import Broken
    if flags.get('reference_law_failure'):
        raise Broken('a law fails on the reference semantics: %d cases' % flags['reference_law_failure'])
    if agg['nontrivial'] < 1000:
        raise Broken('vacuous: only %d non-trivial cases' % agg['nontrivial'])
    if flags.get('after_rejected_and_reset', 0) < 100:
        raise Broken('vacuous: only %d recovery cases in which both monitors rejected the sample' % flags.get('after_rejected_and_reset', 0))
    return {'law_instances': agg['formulas'], 'recovery_cases': flags.get('after_rejected_and_reset', 0)}
