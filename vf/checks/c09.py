"""C09 - modular specifications (sub-specifications, constants) are equivalent to their inlined form (E1 + E2)."""
import itertools
import sys

from .. import formula as F
from .. import refsem
from .. import dref
from .. import impl
from .. import explore
from .. import modular as M
from .. import kinds
from . import c02, c04, c05

ID = 'C09'
LEVEL = 'model_checking'
RULE = ('for every formula of the set, every way of naming a subset of its proper sub-formula occurrences as sub-specifications (identical '
        'sub-formulas share a name, i.e. are referenced twice; nested names), presented through add_sub_spec() and as one multi-assertion text, '
        'plus declared constants for thresholds and bounds; discrete online (plain and pastified): product BFS of the real modular monitor, every '
        'update() must equal the reference rho of the INLINED formula (delayed by the horizon after pastify); discrete/dense offline: all traces (discrete: a second time through ONE data set that the caller refills in place before each evaluate()) / '
        'grid signals, values equal to the inlined reference; dense online: all schedules of probe signals (incl. plateau signals), every call also compared - extent and values - with the inlined text on a second real monitor fed in lock-step; constants also declared with Python numbers; interface-aware layer: modular presentations whose named (also arithmetic) sub-formulas are shared by several predicates, under 6 (semantics, input/output) configurations and the 4 monitor kinds, modular result = result of the inlined text on the same real monitor; non-trivial = checked transition/evaluation of a specification with at least one stateful named sub-formula')
ASSUMPTIONS = ['reference of the inlined formula (vf/refsem.py, vf/dref.py); C02/C04 establish that the inlined monitor equals that reference',
               'formulas <= 2 operators plus selected 3-operator shapes; value alphabets V3/{-1,2}']

STATEFUL = ('prev', 's_prev', 'rise', 'fall', 'once', 'historically', 'since', 'eventually', 'always', 'until', 'next', 's_next')


def base_formulas(tier):
    quick = tier == 'quick'
    px, py, X, Y = F.PX, F.PY, F.X, F.Y
    fs = [
        ('and', ('once', (0, 1), px), ('prev', ('once', (0, 1), px))),
        ('pred', '>=', ('prev', X), F.C0),
        ('since', (1, 2), ('historically', (0, 1), px), py),
        ('or', ('rise', px), ('once', None, ('rise', px))),
        ('-', ('prev', X), ('prev', X)),
        ('implies', ('since', None, px, py), ('s_prev', ('since', None, px, py))),
        ('once', (1, 2), ('fall', ('once', (0, 1), X))),
        ('and', ('historically', None, ('or', px, py)), ('not', ('prev', ('or', px, py)))),
        ('iff', ('once', (0, 2), X), ('historically', (1, 1), Y)),
    ]
    fut = [
        ('or', ('eventually', (0, 1), px), ('next', ('eventually', (0, 1), px))),
        ('always', (0, 1), ('implies', px, ('eventually', (1, 2), py))),
        ('until', (0, 2), ('once', (0, 1), px), py),
        ('and', ('next', px), ('prev', py)),
        ('unless', (0, 1), px, ('always', (0, 1), py)),
    ]
    if not quick:
        I = ((0, 1), (1, 2))
        U = F.unary_ops(I, ops=c02.PAST_U)
        B = F.binary_ops(I, ops=c02.PAST_B, unless=False)
        fs += [f for f in F.F(2, U, B, [(px, py, X)]) if F.size(f) == 2 and F.has_op(f, STATEFUL)][::9]
    return fs, fut


def arith_formulas():
    """formulas in which an arithmetic term occurs twice (named: `a = abs(x); out = (a <= y) and (a >= 1)`)"""
    X, Y = F.X, F.Y
    ax = ('abs', X)
    d = ('-', X, Y)
    return [('and', ('pred', '<=', ax, Y), ('pred', '>=', ax, F.C1)),
            ('or', ('once', (0, 1), ('pred', '>', d, F.C0)), ('prev', ('pred', '<=', d, F.C1))),
            ('since', (0, 1), ('pred', '>=', ('*', ax, F.C2), F.C1), ('pred', '<', ax, Y))]


def const_cases():
    """(formula with ('const', name) leaves / named bounds, consts, inlined formula)"""
    px1 = ('pred', '>=', F.X, ('const', 'c1'))
    return [
        (('once', (0, 1), px1), [('c1', 'float', '1')], ('once', (0, 1), ('pred', '>=', F.X, F.C1)), None),
        (('and', ('prev', px1), ('pred', '<=', F.Y, ('const', 'c2'))), [('c1', 'float', '0'), ('c2', 'float', '1.5')],
         ('and', ('prev', ('pred', '>=', F.X, F.C0)), ('pred', '<=', F.Y, ('const', 1.5))), None),
        # constants as interval bounds
        (('once', ('b0', 'b2'), F.PX), [('b0', 'int', '0'), ('b2', 'int', '2')], ('once', (0, 2), F.PX), 'bounds'),
        (('since', ('b1', 'b2'), F.PX, F.PY), [('b1', 'int', '1'), ('b2', 'int', '2')], ('since', (1, 2), F.PX, F.PY), 'bounds'),
    ]


# --- declared constants as interval bounds, with and without units: the constant form against the same text with the value written out
# (both sides are the real implementation; what the literal form means is the business of C08)
CU_TEMPLATES = (('{a}', '3s', {'a': 1}), ('{a}', '3', {'a': 1}), ('{a} s', '3s', {'a': 1}), ('0', '{a}', {'a': 2}), ('1s', '{a}', {'a': 3}),
                ('{a}', '2000ms', {'a': 1000}), ('{a} ms', '3s', {'a': 1000}), ('1', '{a} s', {'a': 3}), ('{a}', '{b}', {'a': 1, 'b': 2}),
                ('{a}', '{b} s', {'a': 1, 'b': 2}), ('{a} ms', '{b}', {'a': 1000, 'b': 2000}), ('0', '{a} ms', {'a': 2000}),
                # the values handed to declare_const() as Python NUMBERS (not strings), several of them not representable in binary
                ('0', '{a}', {'a': 0.3}, 'num'), ('{a}', '{b}', {'a': 0.1, 'b': 0.3}, 'num'), ('0', '{a}', {'a': 1.5}, 'num'), ('{a}', '1', {'a': 0.5}, 'num'),
                ('0', '{a}', {'a': 2}, 'num'), ('0', '{a} ms', {'a': 300}, 'num'), ('{a}', '{a}', {'a': 0.7}, 'num'), ('{a} s', '{b} ms', {'a': 0.2, 'b': 600.0}, 'num'))
CU_OPS = (('once', 1), ('historically', 1), ('eventually', 1), ('always', 1), ('since', 2), ('until', 2))
CU_CONFIGS = (('s', (1, 's'), 1.0), ('ms', (1000, 'ms'), 1000.0), ('ms', (500, 'ms'), 500.0), (None, None, 1.0), ('s', (100, 'ms'), 0.1), ('s', (500, 'ms'), 0.5))
CU_KINDS = ('dt_off', 'dt_on', 'ct_off', 'ct_on')


def const_unit_cases():
    out = []
    for op, ar in CU_OPS:
        for ti in range(len(CU_TEMPLATES)):
            for ci in range(len(CU_CONFIGS)):
                out.append((op, ar, ti, ci))
    return out


def cu_texts(op, ar, ti):
    b, e, vals = CU_TEMPLATES[ti][:3]
    numeric = len(CU_TEMPLATES[ti]) > 3
    names = {k: 'k' + k for k in vals}
    operands = '(x >= 0)' if ar == 1 else None
    def text(sub):
        I = '[%s:%s]' % (b.format(**sub), e.format(**sub))
        return 'out = %s%s %s' % (op, I, operands) if ar == 1 else 'out = (x >= 0) %s%s (y >= 0)' % (op, I)
    consts = [(names[k], 'float' if isinstance(v, float) else 'int', v if numeric else str(v)) for k, v in sorted(vals.items())]
    return text(names), text({k: str(v) for k, v in vals.items()}), consts


def cu_run(kind, text, consts, cfg, w):
    """('ok', comparable output) | ('err', message)"""
    unit, period, dt = CU_CONFIGS[cfg]
    vs = sorted(w)
    future = any(k in text for k in ('eventually', 'always', 'until'))
    online = kind in ('dt_on', 'ct_on')
    try:
        spec = impl.build(kind, text, vs, consts=consts, unit=unit, period=period if kind.startswith('dt') else None,
                          pastify=online and future)
    except Exception as e:
        return ('err', '%s: %s' % (type(e).__name__, str(e)[:80]))
    n = len(w[vs[0]])
    if kind.startswith('dt'):
        return impl.outcome(kinds.dt_values, kind, spec, w, [i * dt for i in range(n)])
    k, v = impl.outcome(kinds.ct_samples, kind, spec, kinds.grid_signal(w, dt))
    return (k, [list(q) for q in v] if k == 'ok' else v)


def cu_check(case):
    ctext, ltext, consts = cu_texts(case['op'], case['arity'], case['template'])
    a = cu_run(case['kind'], ctext, [tuple(c) for c in consts], case['config'], case['trace'])
    b = cu_run(case['kind'], ltext, (), case['config'], case['trace'])
    if a[0] != b[0]:
        return 'with constants %r: %s %s; with the values written out %r: %s %s' % (ctext, a[0], str(a[1])[:160], ltext, b[0], str(b[1])[:160]), a, b
    if a[0] == 'ok' and explore.snapshot(a[1]) != explore.snapshot(b[1]):
        return 'with constants %r the result is %s, with the values written out %r it is %s' % (ctext, str(a[1])[:200], ltext, str(b[1])[:200]), a, b
    return None, a, b


def run_const_units(res, mod, idx, tier):
    op, ar, ti, ci = const_unit_cases()[idx]
    n = 5 if ar == 1 else 3
    for kind in CU_KINDS:
        if kind.startswith('ct') and ('prev' in op):
            continue
        if kind == 'ct_on' and op == 'until':
            continue     # the rewriting of until is not supported by the dense online monitor
        for tr in F.traces(n, F.V2, ar, minlen=n):
            w = F.trace_dict(tr, ['x', 'y'][:ar])
            case = {'kind': 'const_units', 'op': op, 'arity': ar, 'template': ti, 'config': ci, 'trace': w, 'formula': None}
            case['kind'] = kind
            case['group'] = 'const_units'
            res.evaluations += 1
            msg, a, b = cu_check(case)
            if msg:
                res.violation(mod, case, msg)
                res.outcomes['constant bound differs from literal'] += 1
                break
            res.outcomes['both accept' if a[0] == 'ok' else 'both reject'] += 1
            if a[0] == 'ok':
                res.nontrivial += 1
            else:
                break   # the rejection does not depend on the trace
        res.digest(op, ti, ci, kind)
    res.flags['const_unit_specs'] += 1


# --- declared constants as VALUES with many significant digits / large magnitude / exponents: constant form against the written-out text
VALUE_CONSTS = (('1000001', 'int'), ('16777217', 'int'), ('-1000001', 'int'), ('123456.5', 'float'), ('0.1234567', 'float'), ('3.141593', 'float'),
                ('0.1', 'float'), ('1e-7', 'float'), ('12345678.25', 'float'), ('9007199254740993', 'int'), ('2.5', 'float'), ('100000000', 'int'))
VALUE_TEMPLATES = ('out = (x >= {k})', 'out = once[0,1] ((x - {k}) >= 0)', 'out = (abs(x - {k}) <= 0.5) and (y <= {k})', 'out = (x == {k})')


def value_const_cases():
    return [(ci, ti) for ci in range(len(VALUE_CONSTS)) for ti in range(len(VALUE_TEMPLATES))]


def vc_check(case):
    lit, typ = VALUE_CONSTS[case['const']]
    tpl = VALUE_TEMPLATES[case['template']]
    ctext, ltext = tpl.format(k='kv'), tpl.format(k=lit if not lit.startswith('-') else '(%s)' % lit)
    a = cu_run(case['kind'], ctext, [('kv', typ, lit)], 3, case['trace'])
    b = cu_run(case['kind'], ltext, (), 3, case['trace'])
    if a[0] != b[0]:
        return 'with the constant kv = %s: %s %s; with the value written out %r: %s %s' % (lit, a[0], str(a[1])[:160], ltext, b[0], str(b[1])[:160])
    if a[0] == 'ok' and explore.snapshot(a[1]) != explore.snapshot(b[1]):
        return 'with the declared constant kv = %s the result of %r is %s, with the value written out it is %s' % (lit, ctext, str(a[1])[:200], str(b[1])[:200])
    return None


def run_value_consts(res, mod, idx):
    ci, ti = value_const_cases()[idx]
    v = float(VALUE_CONSTS[ci][0])
    step = max(abs(v) * 1e-6, 1e-7) if abs(v) < 1e6 else 1.0
    vals = (v, v + step, v - step)
    for kind in CU_KINDS:
        for tr in F.traces(3, vals, 1, minlen=3):
            w = {'x': [e[0] for e in tr], 'y': [v, v - step, v + step]}
            case = {'group': 'value_consts', 'kind': kind, 'const': ci, 'template': ti, 'trace': w, 'formula': None}
            res.evaluations += 1
            msg = vc_check(case)
            if msg:
                res.violation(mod, case, msg)
                res.outcomes['constant value differs from literal'] += 1
                break
            res.outcomes['constant = literal'] += 1
            res.nontrivial += 1
        res.digest('vc', ci, ti, kind)
    res.flags['value_const_specs'] += 1


def _sbound(I):
    return '[%s,%s]' % tuple(x if isinstance(x, str) else F.fnum(x) for x in I)


def variants(f, limit):
    """distinct (subs, top_text, defs, top) presentations of f"""
    seen = set()
    for defs, top in M.decompositions(f, limit=None):
        if not any(F.has_op(b, STATEFUL) for _, b in defs):
            continue
        subs, text = M.texts(defs, top)
        k = (tuple(subs), text)
        if k in seen:
            continue
        seen.add(k)
        yield subs, text, defs, top
        if len(seen) >= limit:
            return


def variants_any(f, limit, arith=False):
    """like variants(), but any named sub-formula counts (also stateless ones such as a predicate used twice)"""
    seen = set()
    for defs, top in M.decompositions(f, limit=None, arith=arith):
        subs, text = M.texts(defs, top)
        k = (tuple(subs), text)
        if k in seen:
            continue
        seen.add(k)
        yield subs, text, defs, top
        if len(seen) >= limit:
            return


def shards(tier):
    past, fut = base_formulas(tier)
    limit = 6 if tier == 'quick' else 40
    out = []
    for fs, future in ((past, False), (fut, True)):
        for f in fs:
            n = len(list(variants(f, limit)))
            for vi in range(n):
                out.append({'f': F.to_json(f), 'future': future, 'vi': vi})
    for f in arith_formulas():
        n = len(list(variants_any(f, limit, arith=True)))
        for vi in range(n):
            out.append({'f': F.to_json(f), 'future': False, 'vi': vi, 'arith': True})
    out.append({'consts': True})
    ni = len(ia_cases(tier))
    out += [{'ia': list(range(i, min(i + 2, ni)))} for i in range(0, ni, 2)]
    n = len(const_unit_cases())
    out += [{'const_units': list(range(i, min(i + 12, n)))} for i in range(0, n, 12)]
    n = len(value_const_cases())
    out += [{'value_consts': list(range(i, min(i + 6, n)))} for i in range(0, n, 6)]
    return out


def explore_online(res, mod, f, subs, text, pastify, tier, form):
    p = dict(values=(F.V3, F.V2), maxdepth=6 if tier == 'quick' else 8, max_transitions=500 if tier == 'quick' else 20000,
             validate='first')
    delay = int(refsem.horizon(f)) if pastify else 0
    if form == 'add_sub_spec':
        m = c02.DtOnlineModel(f, p['values'], text=text, pastify=pastify, delay=delay, subspecs=tuple(subs), offline=False)
    else:
        m = c02.DtOnlineModel(f, p['values'], text=' '.join(subs) + ' ' + text, pastify=pastify, delay=delay, offline=False)
    st, m = c02.explore_formula(res, mod, f, p, model=m, extra={'subspecs': list(subs) if form == 'add_sub_spec' else [], 'kind': 'dt_on'})
    return st


def offline_dt(res, mod, f, subs, text, form):
    vs = sorted(F.fvars(f))
    kw = dict(subspecs=tuple(subs)) if form == 'add_sub_spec' else {}
    t = text if form == 'add_sub_spec' else ' '.join(subs) + ' ' + text
    case0 = {'kind': 'dt_off', 'formula': F.to_json(f), 'spec': t, 'vars': vs, 'subspecs': list(kw.get('subspecs', ()))}
    try:
        spec = impl.build('dt_off', t, vs, **kw)
    except Exception as e:
        res.violation(mod, dict(case0, trace={}), 'parse() raised %s: %s' % (type(e).__name__, e))
        return
    for tr in F.traces(3, F.V3 if len(vs) == 1 else F.V2, len(vs)):
        w = F.trace_dict(tr, vs)
        res.evaluations += 1
        ref = refsem.ev(f, w, len(tr))
        kind, val = impl.outcome(impl.dt_evaluate, spec, w)
        if kind != 'ok':
            msg = 'evaluate() raised %s' % (val,)
        elif not refsem.same_list([q[1] for q in val], ref):
            msg = 'modular offline result %r differs from the inlined reference %r' % ([q[1] for q in val], ref)
        else:
            msg = None
            res.nontrivial += 1
        if msg:
            res.violation(mod, dict(case0, trace=w), msg)
            res.outcomes['dt_off mismatch'] += 1
        res.digest(t, tr, msg)
    # the same traces through ONE data set that the caller refills in place before each evaluate() (a second object)
    spec2 = impl.build('dt_off', t, vs, **kw)
    buf = {'time': []}
    prev = None
    for tr in F.traces(3, F.V3 if len(vs) == 1 else F.V2, len(vs)):
        w = F.trace_dict(tr, vs)
        res.evaluations += 1
        msg = refilled_case(spec2, buf, f, w)
        if msg:
            res.violation(mod, dict(case0, trace=w, refilled_after=prev), msg)
            res.outcomes['dt_off mismatch (refilled data set)'] += 1
        else:
            res.nontrivial += 1
            res.flags['refilled_data_set_cases'] += 1
        prev = w
        res.digest(t, tr, 'refilled', msg)


def refilled_case(spec, buf, f, w):
    n = len(next(iter(w.values())))
    buf['time'][:] = list(range(n))
    for v, vals in w.items():
        buf.setdefault(v, [])[:] = vals
    kind, val = impl.outcome(spec.evaluate, buf)
    ref = refsem.ev(f, w, n)
    if kind != 'ok':
        return 'evaluate() raised %s' % (val,)
    if not refsem.same_list([q[1] for q in val], ref):
        return 'modular offline result %r differs from the inlined reference %r (the caller keeps one data set and refills its lists in place)' % ([q[1] for q in val], ref)
    return None


DENSE_OK = lambda f: not F.has_op(f, ('prev', 's_prev', 'next', 's_next', 'rise', 'fall'))


def offline_ct(res, mod, f, subs, text, tier):
    vs = sorted(F.fvars(f))
    case0 = {'kind': 'ct_off', 'formula': F.to_json(f), 'spec': text, 'vars': vs, 'subspecs': list(subs)}
    try:
        spec = impl.build('ct_off', text, vs, subspecs=tuple(subs))
    except Exception as e:
        res.violation(mod, dict(case0, signals={}), 'parse() raised %s: %s' % (type(e).__name__, e))
        return
    sigs = c04.signal_sets(len(vs), 'quick')
    sigs = [s for s in sigs if min(v[0][0] for v in s.values()) == 0][::7 if tier == 'quick' else 2]
    for si, sig in enumerate(sigs):
        sig = {v: sig[v if v in sig else 'x'] for v in vs}
        res.evaluations += 1
        times, ref = c04.reference(f, sig, si)
        kind, val = impl.outcome(impl.ct_evaluate, spec, sig)
        msg = 'evaluate() raised %s' % (val,) if kind != 'ok' else c04.compare(val, sig, times, ref)
        if msg:
            res.violation(mod, dict(case0, signals={v: [list(q) for q in s] for v, s in sig.items()}), 'dense offline modular: ' + msg)
            res.outcomes['ct_off mismatch'] += 1
        else:
            res.nontrivial += 1
        res.digest(text, si, msg)


class ModularSchedule(c05.ScheduleModel):
    def __init__(self, f, text, vs, signals, subs, pastify=False):
        self.subs = tuple(subs)
        c05.ScheduleModel.__init__(self, f, text, vs, signals, pastify)

    def fresh(self):
        s = impl.build('ct_on', self.text, self.vs, pastify=self.pastify, subspecs=self.subs)
        s._vf_last = None
        s._vf_msg = None
        s._vf_compared = False
        # the inlined text on the same real monitor, fed the same calls in lock-step
        s._vf_twin = impl.build('ct_on', 'out = ' + F.pr(self.f), self.vs, pastify=self.pastify)
        return s

    def apply(self, obj, hist, step):
        out = c05.ScheduleModel.apply(self, obj, hist, step)
        p = self.pos(hist)
        batches = {v: self.signals[v][p[i]:p[i] + step[i]] for i, v in enumerate(self.vs)}
        tw = impl.outcome(impl.ct_update, obj._vf_twin, batches)
        if obj._vf_msg is None and out[0] == 'ok' and tw[0] == 'ok' and isinstance(out[1], list) and isinstance(tw[1], list):
            a, b = [list(q) for q in out[1]], [list(q) for q in tw[1]]
            ea = (a[0][0], a[-1][0]) if a else None
            eb = (b[0][0], b[-1][0]) if b else None
            if ea != eb:
                obj._vf_msg = ('this update() of the modular specification returned %r, the inlined specification returned %r for the same call '
                               '(the two results do not cover the same stretch of time)' % (a, b))
            else:
                for t in sorted({q[0] for q in a} | {q[0] for q in b}):
                    if not refsem.same(dref.stepval(a, t), dref.stepval(b, t)):
                        obj._vf_msg = 'this update() of the modular specification returned %r, the inlined specification returned %r for the same call' % (a, b)
                        break
        return out


PLATEAU_SETS = {1: [{'x': ((0.0, 2.0), (1.0, 2.0), (2.0, 2.0), (3.0, -1.0))}, {'x': ((0.0, -1.0), (0.5, 2.0), (1.5, 2.0), (2.0, 2.0))}],
                2: [{'x': ((0.0, 2.0), (1.0, 2.0), (2.0, 2.0), (3.0, -1.0)), 'y': ((0.0, 2.0), (1.5, -1.0), (2.5, 2.0), (3.0, 2.0))},
                    {'x': ((0.0, -1.0), (0.5, 2.0), (1.5, 2.0), (3.0, 2.0)), 'y': ((0.0, -1.0), (1.0, -1.0), (2.0, 2.0), (3.0, -1.0))}]}


def online_ct(res, mod, f, subs, text, tier):
    vs = sorted(F.fvars(f))
    # (plus signals that keep a value over several samples while the other variable changes: the result of a named sub-formula then ends a call on a plateau)
    for sig in c05.signal_sets(len(vs), 'quick')[:2 if tier == 'quick' else 6] + PLATEAU_SETS[len(vs)]:
        sig = {v: sig['x' if (v == 'y' and len(vs) == 1) else v] for v in vs}
        m = ModularSchedule(f, text, vs, sig, subs)

        def on_violation(hist, msg, sig=sig):
            case = {'kind': 'ct_on', 'formula': F.to_json(f), 'spec': text, 'vars': vs, 'subspecs': list(subs), 'pastify': False,
                    'signals': {v: [list(q) for q in s] for v, s in sig.items()}, 'schedule': [list(s) for s in hist]}
            res.violation(mod, case, 'dense online modular: ' + msg)
            res.outcomes['ct_on mismatch'] += 1
        st = explore.bfs(m, 64, 20000, 'first', on_violation)
        res.states += st.states
        res.transitions += st.transitions
        res.traces += st.executions
        res.evaluations += st.transitions
        res.nontrivial += m.nontrivial
        res.digest(text, st.states, st.transitions)


IA_CONFIGS = (('output_robustness', {'x': 'input', 'y': 'output'}), ('input_robustness', {'x': 'output', 'y': 'input'}),
              ('input_vacuity', {'x': 'input', 'y': 'output'}), ('output_robustness', {'x': 'output', 'y': 'input'}),
              ('input_robustness', {'x': 'input', 'y': 'output'}), ('output_vacuity', {'x': 'output', 'y': 'input'}))


def ia_cases(tier):
    """modular presentations (named sub-formulas, also arithmetic ones, shared by several predicates) to be monitored under the
    interface-aware semantics: (inlined formula, sub-spec texts, top text)"""
    from . import c06
    return c06.modular_set(tier)


def ia_outputs(kind, text, subs, vs, sem, io, w):
    spec = impl.build(kind, text, vs, subspecs=tuple(subs), semantics=sem, io_types={v: t for v, t in io.items() if v in vs})
    if kind.startswith('dt'):
        return kinds.dt_values(kind, spec, w)
    n = len(w[vs[0]])
    out = kinds.ct_samples(kind, spec, kinds.grid_signal(w, 1.0))
    return [dref.stepval(out, 0.5 * k) if out and 0.5 * k >= out[0][0] and 0.5 * k <= out[-1][0] else None for k in range(2 * n - 1)]


def ia_check(case):
    f = F.from_json(case['formula'])
    sem, io = case['ia']
    vs = case['vars']
    a = impl.outcome(ia_outputs, case['kind'], case['spec'], case['subspecs'], vs, sem, io, case['trace'])
    b = impl.outcome(ia_outputs, case['kind'], 'out = ' + F.pr(f), (), vs, sem, io, case['trace'])
    if a[0] != b[0]:
        return 'modular specification: %s %s; inlined specification: %s %s (semantics %s, %r)' % (a[0], str(a[1])[:150], b[0], str(b[1])[:150], sem, io)
    if a[0] == 'ok':
        av, bv = a[1], b[1]
        if case['kind'].startswith('ct'):      # an instant is compared when both outputs cover it
            av, bv = zip(*[(p, q) for p, q in zip(av, bv) if p is not None and q is not None]) if any(p is not None and q is not None for p, q in zip(av, bv)) else ((), ())
        if not refsem.same_list(list(av), list(bv)):
            return 'under %s with %r the modular specification returns %r, the inlined one %r' % (sem, io, list(av), list(bv))
    return None


def run_ia(res, mod, idx, tier):
    f, subs, text = ia_cases(tier)[idx]
    vs = sorted(F.fvars(f))
    res.formulas += 1
    plans = ['dt_off'] + (['dt_on'] if F.past_only(f) else []) + (['ct_off'] + (['ct_on'] if F.past_only(f) else []) if DENSE_OK(f) else [])
    for ci, (sem, io) in enumerate(IA_CONFIGS):
        for kind in plans:
            for tr in F.traces(3, (-1.0, 0.0, 1.0) if len(vs) == 1 else (-1.0, 1.0), len(vs), minlen=2):
                w = F.trace_dict(tr, vs)
                case = {'group': 'ia', 'kind': kind, 'formula': F.to_json(f), 'spec': text, 'subspecs': list(subs), 'vars': vs, 'ia': [sem, io], 'trace': w}
                res.evaluations += 1
                msg = ia_check(case)
                if msg:
                    res.violation(mod, case, msg)
                    res.outcomes['interface-aware: modular differs from inlined'] += 1
                    break
                res.outcomes['interface-aware: modular = inlined'] += 1
                res.nontrivial += 1
            res.digest(text, sem, kind)
    res.flags['interface_aware_modular_specs'] += 1


def run_shard(shard, tier, res):
    mod = sys.modules[__name__]
    if 'ia' in shard:
        for idx in shard['ia']:
            run_ia(res, mod, idx, tier)
        return
    if 'value_consts' in shard:
        for idx in shard['value_consts']:
            run_value_consts(res, mod, idx)
        return
    if 'const_units' in shard:
        for idx in shard['const_units']:
            run_const_units(res, mod, idx, tier)
        return
    if shard.get('consts'):
        for g, consts, f, tag in const_cases():
            text = 'out = ' + F.pr(g, _sbound)
            m = c02.DtOnlineModel(f, (F.V3, F.V2), text=text, consts=consts, offline=False)
            p = dict(values=(F.V3, F.V2), maxdepth=6, max_transitions=600, validate='first')
            c02.explore_formula(res, mod, f, p, model=m, extra={'consts': [list(c) for c in consts], 'kind': 'dt_on'})
            res.flags['const_specs'] += 1
            vs = sorted(F.fvars(f))
            case0 = {'kind': 'dt_off', 'formula': F.to_json(f), 'spec': text, 'vars': vs, 'consts': [list(c) for c in consts]}
            try:
                spec = impl.build('dt_off', text, vs, consts=consts)
            except Exception as e:
                res.violation(mod, dict(case0, trace={}), 'parse() raised %s: %s' % (type(e).__name__, e))
                continue
            for tr in F.traces(3, F.V3 if len(vs) == 1 else F.V2, len(vs)):
                w = F.trace_dict(tr, vs)
                res.evaluations += 1
                kind, val = impl.outcome(impl.dt_evaluate, spec, w)
                ref = refsem.ev(f, w, len(tr))
                if kind != 'ok' or not refsem.same_list([q[1] for q in val], ref):
                    res.violation(mod, dict(case0, trace=w), 'offline with constants gives %r, inlined reference %r' % (val, ref))
        return
    f = F.from_json(shard['f'])
    limit = 6 if tier == 'quick' else 40
    vlist = variants_any(f, limit, arith=True) if shard.get('arith') else variants(f, limit)
    for vi, (subs, text, defs, top) in enumerate(vlist):
        if vi != shard['vi']:
            continue
        res.formulas += 1
        if shard['future']:
            explore_online(res, mod, f, subs, text, True, tier, 'add_sub_spec')
        else:
            explore_online(res, mod, f, subs, text, False, tier, 'add_sub_spec')
            if vi % 2 == 0:
                explore_online(res, mod, f, subs, text, True, tier, 'add_sub_spec')
        if vi == 0 or tier != 'quick':
            explore_online(res, mod, f, subs, text, shard['future'], tier, 'multi_assertion')
        offline_dt(res, mod, f, subs, text, 'add_sub_spec')
        if vi % 3 == 0:
            offline_dt(res, mod, f, subs, text, 'multi_assertion')
        if DENSE_OK(f) and not F.has_op(f, ('-',)):
            offline_ct(res, mod, f, subs, text, tier)
            if not shard['future'] and vi < (2 if tier == 'quick' else 8):
                online_ct(res, mod, f, subs, text, tier)
        res.sample({'inlined': F.pr(f), 'sub_specs': subs, 'spec': text}, 1)


def replay(case):
    if case.get('group') == 'value_consts':
        m = vc_check(case)
        return [m] if m else []
    if case.get('group') == 'const_units':
        m = cu_check(case)[0]
        return [m] if m else []
    if case.get('group') == 'ia':
        m = ia_check(case)
        return [m] if m else []
    f = F.from_json(case['formula'])
    kind = case.get('kind', 'dt_on')
    if kind == 'dt_on':
        return c02.check_case(case)
    if kind == 'dt_off':
        spec = impl.build('dt_off', case['spec'], case['vars'], subspecs=tuple(case.get('subspecs', ())),
                          consts=[tuple(c) for c in case.get('consts', ())])
        w = case['trace']
        n = len(next(iter(w.values())))
        if 'refilled_after' in case:
            buf = {'time': []}
            if case['refilled_after']:
                refilled_case(spec, buf, f, case['refilled_after'])
            m = refilled_case(spec, buf, f, w)
            return [m] if m else []
        k, val = impl.outcome(impl.dt_evaluate, spec, w)
        ref = refsem.ev(f, w, n)
        if k != 'ok':
            return ['evaluate() raised %s' % (val,)]
        return [] if refsem.same_list([q[1] for q in val], ref) else ['modular %r vs inlined reference %r' % (val, ref)]
    sig = {v: [tuple(q) for q in s] for v, s in case['signals'].items()}
    if kind == 'ct_off':
        spec = impl.build('ct_off', case['spec'], case['vars'], subspecs=tuple(case['subspecs']))
        times, ref = c04.reference(f, sig, 0)
        k, val = impl.outcome(impl.ct_evaluate, spec, sig)
        m = 'evaluate() raised %s' % (val,) if k != 'ok' else c04.compare(val, sig, times, ref)
        return [m] if m else []
    m = ModularSchedule(f, case['spec'], case['vars'], sig, case['subspecs'])
    obj = m.fresh()
    hist = tuple(tuple(s) for s in case['schedule'])
    for i, st in enumerate(hist):
        m.apply(obj, hist[:i], st)
        if obj._vf_msg:
            return [obj._vf_msg]
    return []


def finalize(agg, outcomes, flags, tier):
    from ..runner import Broken
    if agg['nontrivial'] < 1000:
        raise Broken('vacuous: only %d checked cases' % agg['nontrivial'])
    return {'presentations': agg['formulas'], 'const_specs': flags.get('const_specs', 0), 'const_unit_specs': flags.get('const_unit_specs', 0)}
