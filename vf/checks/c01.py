"""C01 - discrete-time offline robustness equals the README semantics (engine E1)."""
import itertools
import math

from .. import formula as F
from .. import refsem
from .. import impl
from .. import reconf

ID = 'C01'
LEVEL = 'exploration'
RULE = ('all formulas of the stated fragments (<=k operators over the operator/interval/atom alphabets, chains, '
        'arithmetic terms; deep, wide, long and large-magnitude layers) x all traces up to the stated length over the value alphabet, each evaluated by the real '
        'offline monitor and compared with the reference rho; a case is non-trivial when the reference output is '
        'not constant +-inf and differs from the output of every direct operand (the top operator mattered); '
        'cases are distinct by construction (each (formula, trace) pair is enumerated once); for every second formula the caller keeps one data set and refills its lists in place before each evaluate(); structured presentation: for the arithmetic / pattern / three-variable sets and every third formula of F1, F2, Chain3 the variables are also presented as fields m.x (or m.inner.x) of ONE variable whose samples are objects (import_module + declare_var(m, <class>)); life layer: the same comparison on specification objects that were '
        'used under another default unit / sampling period before and then switched through the public setters (all ordered pairs of 4 configurations)')
ASSUMPTIONS = ['finite dyadic sample values only; NaN/inf inputs out of scope',
               'cases where the reference raises a math domain error are dropped',
               'reference semantics vf/refsem.py transcribes the README definition (prev/next weak, s_prev/s_next strong)']

TIMECOLS = (lambda n: list(range(n)),
            lambda n: [[0, 1.5, 2, 7, 7.25, 100][i % 6] + 1000 * (i // 6) for i in range(n)],
            lambda n: [10 + 0.5 * i for i in range(n)])


def _formula_sets(tier):
    """list of (tag, formulas, values, nvars-independent trace length)"""
    quick = tier == 'quick'
    Iq = F.I_QUICK
    If = F.I_FULL
    sets = []
    # S1: one operator over every atom, full interval alphabet
    U = F.unary_ops(If)
    B = F.binary_ops(If)
    leaf1 = [(a, b, F.PX) for a in F.ATOMS for b in (F.PY, F.PX, F.Y)]
    sets.append(('F1', list(F.F(1, U, B, leaf1)), F.V3, 4 if not quick else 3))
    # S2: two operators
    U2 = F.unary_ops(Iq if quick else If)
    B2 = F.binary_ops(Iq if quick else If)
    leaf2 = [(F.PX, F.PY, F.X)] if quick else [(F.PX, F.PY, F.X), (F.X, F.ATOMS[2], F.PY)]
    f2 = [f for f in F.F(2, U2, B2, leaf2) if F.size(f) == 2]
    sets.append(('F2', f2, F.V3 if not quick else F.V3, 3))
    # S3: chains of three unary operators over one atom (deep nesting, large horizons); single variable: T(4..5)
    Uc = F.unary_ops(((0, 1), (1, 2)) if quick else Iq)
    sets.append(('Chain3', list(F.chains(3, Uc, F.PX)), F.V3, 4 if quick else 5))
    # S4: arithmetic terms as predicates
    terms = F.arith_terms(1)
    if not quick:
        d1 = [t for t in terms if t[0] not in ('var', 'const')]
        leaves = [F.X, F.Y, F.C2, F.CH]
        terms = terms + [(u, a) for u in F.ARITH1 for a in d1] + \
            [(b, a, c) for b in F.ARITH2 + F.ARITHF2 for a in d1 for c in leaves] + \
            [(b, c, a) for b in F.ARITH2 + F.ARITHF2 for a in d1 for c in leaves]
    inner = [('*', F.X, F.CH), ('+', F.X, F.C1), ('-', F.C2, F.Y), F.C2]
    terms = terms + [(u, a) for u in F.ARITH1 for a in inner] + [(b, a, F.C2) for b in F.ARITH2 + F.ARITHF2 for a in inner[:3]] + \
        [(b, F.CH, a) for b in F.ARITH2 + F.ARITHF2 for a in inner[:3]]
    ar = [('pred', '>=', t, F.C0) for t in dict.fromkeys(terms)] + [('pred', c, ('neg', F.X), ('ln', F.Y)) for c in ('<=', '==', '!==', '<', '>')]
    sets.append(('Arith', ar, (-1.0, 0.5, 2.0, 4.0), 2))
    sets.append(('Patterns', F.patterns(), F.V3 if not quick else F.V2, 3))
    # Deep: larger bounds (up to 7), three nested temporal operators, long traces over a two-letter alphabet
    deep = F.deep_formulas(F.UN_T + F.UNARY_PLAIN, ('since', 'until', 'unless'))
    sets.append(('Deep1', [f for f in deep if len(F.fvars(f)) == 1], F.V2, 9 if quick else 11))
    sets.append(('Deep2', [f for f in deep if len(F.fvars(f)) == 2], F.V2, 5 if quick else 6))
    # three value levels on medium traces (ties and strictly monotone runs inside one window)
    sets.append(('Deep3', [f for f in deep if len(F.fvars(f)) == 1][::(4 if quick else 1)], F.V3, 7 if quick else 8))
    wide = F.wide_formulas(F.UN_T, ('since', 'until'))
    sets.append(('Wide1', [f for f in wide if len(F.fvars(f)) == 1], F.V3, 5 if quick else 6))
    sets.append(('Wide2', [f for f in wide if len(F.fvars(f)) == 2], F.V2, 3 if quick else 4))
    # Long: the fixed family of long traces (periodic / spike / step, 40 samples) for the deep and wide formulas
    lf = [f for f in (deep[::3] if quick else deep) + wide]
    sets.append(('Long', lf, F.V3, 40))
    # Big: sample values of magnitude 1e9 that differ by one unit (every result exactly representable; compared exactly)
    big = 1e9
    sb = ('+', F.X, F.Y)
    pb = ('pred', '<=', sb, ('const', 2 * big + 1.5))
    bigf = [f for f in F.F(1, F.unary_ops(Iq), F.binary_ops(Iq), [(F.X, F.Y, F.X)])] + [sb, pb, ('-', F.X, F.Y), ('pred', '>=', F.X, F.Y),
            ('once', (0, 1), pb), ('always', (1, 2), sb), ('since', None, pb, ('pred', '>', F.Y, F.C0)), ('pred', '==', F.X, F.Y),
            ('pred', '!==', sb, ('const', 2 * big)), ('abs', ('-', F.Y, F.X)), ('rise', pb), ('prev', sb), ('until', (0, 1), F.X, sb)]
    sets.append(('Big', bigf, (big, big + 1.0, big + 2.0), 3))
    # IntData: the samples are Python ints (and the variables declared int in the second variant) - users rarely write 2.0 for 2
    intf = [f for f in F.F(1, F.unary_ops(Iq), F.binary_ops(Iq), [(F.PX, F.PY, F.X)])] + \
        [('pred', '>=', t, F.C0) for t in F.arith_terms(1) if t[0] not in ('sqrt', 'ln', 'log', 'exp')] + [f for f in F.patterns()][:12]
    sets.append(('IntData', intf, (-1, 0, 2), 3))
    # variables DECLARED int that receive samples with a fractional part (the declared type is not a conversion: the robustness is that of the samples supplied)
    sets.append(('IntDecl', intf[::2], (-1.0, 0.5, 1.75), 3))
    # three variables
    Z = ('var', 'z')
    PZ = ('pred', '>', Z, F.C0)
    sets.append(('ThreeVars', [('and', F.PX, ('or', F.PY, PZ)), ('since', None, PZ, ('and', F.PX, F.PY)), ('until', (0, 1), F.PX, ('implies', F.PY, PZ)),
                               ('pred', '>=', ('+', F.X, ('*', F.Y, Z)), F.C0), ('always', (0, 1), ('iff', ('once', (0, 1), PZ), ('xor', F.PX, F.PY))),
                               ('or', ('prev', PZ), ('and', ('next', F.PY), ('rise', F.PX)))], F.V2, 3))
    # S5: temporal operators directly over arithmetic terms and bare variables, three variables (one unused)
    sets.append(('Unused', [('once', (0, 1), ('-', F.X, F.Y)), ('always', (1, 2), ('neg', F.X)), ('until', None, F.X, ('abs', F.Y))],
                 F.V2, 3))
    return sets


def life_formulas():
    """bounded operators whose windows depend on the default unit and the sampling period"""
    px, py, X = F.PX, F.PY, F.X
    out = []
    for I in ((0, 2), (1, 2)):
        out += [('always', I, px), ('eventually', I, X), ('once', I, px), ('historically', I, X), ('until', I, px, ('pred', '<=', X, F.C1)),
                ('since', I, px, ('pred', '<=', X, F.C1))]
    out += [('or', ('always', (0, 1), px), ('once', (1, 1), py)), ('eventually', (0, 1), ('historically', (0, 1), px))]
    return out


def run_life(shard, res):
    """specification objects with an earlier life under another default unit / sampling period (vf/reconf.py); the reference is evaluated
    on the formula with its bounds converted to samples under the configuration in force"""
    for fj in shard['formulas']:
        f = F.from_json(fj)
        vs = sorted(F.fvars(f))
        res.formulas += 1
        for suffix in ('', 's', 'ms'):
            text = 'out = ' + F.pr(f, bound=reconf.speller(suffix))
            case0 = {'life_layer': True, 'formula': fj, 'spec': text, 'vars': vs, 'suffix': suffix}
            for name, c1, f1, spec in reconf.lived_objects('dt_off', f, suffix, vs, res, _mod(), case0):
                traces = list(F.traces(shard['n'] if len(vs) == 1 else shard['n'] - 1, F.V2, len(vs)))
                if F.has_op(f1, F.BIN_T) and F.max_bound(f1) > 100:
                    traces = traces[3::7]        # bounded since/until over a window of a thousand samples takes seconds per evaluation
                for t in traces:
                    w = F.trace_dict(t, vs)
                    times = reconf.times(c1, len(t))
                    ref = refsem.ev(f1, w, len(t))
                    res.evaluations += 1
                    k, val = impl.outcome(impl.dt_evaluate, spec, w, times)
                    msg = ('evaluate() raised %s' % (val,)) if k != 'ok' else _values_ok(val, ref, times)
                    if msg:
                        res.violation(_mod(), dict(case0, life=name, trace=w, times=times),
                                      'object re-configured %s (bounds then denote %s): %s' % (name, F.pr(f1), msg))
                        res.outcomes['re-configured object differs'] += 1
                    else:
                        res.outcomes['agree'] += 1
                        res.flags['life_cases'] += 1
                        if refsem.top_matters(f1, w, len(t), ref):
                            res.nontrivial += 1
                            res.flags['life_nontrivial'] += 1
                    res.digest(text, name, t, msg)
        res.sample({'spec': text, 'lives': [l[0] for l in reconf.lives()][:3]}, 1)


def shards(tier):
    out = []
    lf = life_formulas()
    for i in range(0, len(lf), 1):
        out.append({'tag': 'Life', 'formulas': [F.to_json(f) for f in lf[i:i + 1]], 'values': list(F.V2), 'n': 4 if tier == 'quick' else 5})
    for tag, fs, values, n in _formula_sets(tier):
        per = 40 if tag in ('F1', 'Arith') else (4 if tag.startswith(('Deep', 'Long')) else 60)
        for i in range(0, len(fs), per):
            out.append({'tag': tag, 'formulas': [F.to_json(f) for f in fs[i:i + per]], 'values': list(values), 'n': n})
    return out


def _values_ok(out, ref, times, exact=False):
    if not isinstance(out, list) or len(out) != len(ref):
        return 'result has %s entries for %d samples' % (len(out) if isinstance(out, list) else type(out), len(ref))
    for i, (p, r) in enumerate(zip(out, ref)):
        if not (isinstance(p, (list, tuple)) and len(p) == 2):
            return 'entry %d is not a [time, value] pair: %r' % (i, p)
        if p[0] != times[i]:
            return 'entry %d carries time-stamp %r, supplied %r' % (i, p[0], times[i])
        if not (p[1] == r if exact and p[1] is not None else refsem.same(p[1], r)):
            return 'value at sample %d is %r, reference rho is %r' % (i, p[1], r)
    return None


def check_case(case, spec=None):
    """returns None (holds / outside the property) or a message"""
    f = F.from_json(case['formula'])
    if case.get('life_layer'):
        c1, f1, spec = reconf.lived_object('dt_off', f, case['suffix'], case['vars'], case['life'])
        ref = refsem.ev(f1, case['trace'], len(case['times']))
        k, val = impl.outcome(impl.dt_evaluate, spec, case['trace'], case['times'])
        return ('evaluate() raised %s' % (val,)) if k != 'ok' else _values_ok(val, ref, case['times'])
    w = case['trace']
    n = len(case['times'])
    try:
        ref = refsem.ev(f, w, n)
    except refsem.DomainError:
        return None
    if spec is None:
        spec = impl.build('dt_off', case['spec'], case['vars'], combined=case.get('combined', False), var_type=case.get('var_type', 'float'),
                          struct=case.get('struct'))
        for pre in case.get('pre', []):
            impl.outcome(impl.dt_evaluate, spec, pre['trace'], pre['times'])
    if case.get('buffers') is not None:
        buf = case['buffers']
        buf['time'][:] = case['times']
        for v, vals in w.items():
            buf.setdefault(v, [])[:] = vals
        kind, val = impl.outcome(spec.evaluate, buf)
    else:
        kind, val = impl.outcome(impl.dt_evaluate, spec, w, case['times'])
    if kind != 'ok':
        return 'evaluate() raised %s' % (val,)
    return _values_ok(val, ref, case['times'], exact=bool(case.get('exact')))


def run_shard(shard, tier, res):
    values = shard['values']
    if shard['tag'] == 'Life':
        return run_life(shard, res)
    for fj in shard['formulas']:
        f = F.from_json(fj)
        vs = sorted(F.fvars(f)) or ['x']
        decl = vs + (['z'] if shard['tag'] == 'Unused' else [])
        text = 'out = ' + F.pr(f)
        res.formulas += 1
        variants = [False, True] if shard['tag'] in ('F1', 'Unused', 'IntData') else [False]
        if shard['tag'] == 'IntDecl':
            variants = [True]
        # structured presentation: the variables are fields (m.x / m.inner.x) of one variable whose samples are objects
        if shard['tag'] in ('Arith', 'Patterns', 'ThreeVars', 'Unused') or (shard['tag'] in ('F1', 'F2', 'Chain3') and res.formulas % 3 == 0):
            variants = variants + ['nested' if res.formulas % 2 else 'flat']
        for combined in variants:
            struct = combined if isinstance(combined, str) else None
            combined = False if struct else combined
            try:
                if struct:
                    spec = impl.build('dt_off', text, decl, struct=struct)
                elif shard['tag'] in ('IntData', 'IntDecl'):
                    spec = impl.build('dt_off', text, decl, var_type='int' if combined else 'float')
                else:
                    spec = impl.build('dt_off', text, decl, combined=combined)
            except Exception as e:
                res.violation(_mod(), {'formula': fj, 'spec': text, 'vars': decl, 'combined': combined,
                                       'trace': {}, 'times': []}, 'parse() raised %s: %s' % (type(e).__name__, e))
                continue
            prev = None
            if shard['tag'] == 'Long':
                all_traces = F.long_traces(len(decl), shard['n'], F.V3 if len(decl) == 1 else F.V2)
            else:
                all_traces = list(F.traces(shard['n'], values, len(decl)))
            # one specification object sees growing AND shrinking traces (stale per-object state of a longer evaluation
            # must not leak into a shorter one): even positions ascending, then odd positions descending
            all_traces = all_traces[::2] + all_traces[1::2][::-1]
            # every second formula: the caller keeps ONE data set (one dict, one list per column) and refills it in place before each evaluate()
            reuse = (res.formulas % 2 == 0) and not struct
            buf = {'time': []}
            for ti, t in enumerate(all_traces):
                w = F.trace_dict(t, decl)
                times = TIMECOLS[ti % 3](len(t))
                case = {'formula': fj, 'spec': text, 'vars': decl, 'combined': combined, 'trace': w, 'times': times}
                if reuse:
                    case['buffers'] = buf
                if struct:
                    case['struct'] = struct
                    res.flags['evaluations_on_structured_samples'] += 1
                if shard['tag'] in ('IntData', 'IntDecl'):
                    case.update(combined=False, var_type='int' if combined else 'float')
                if shard['tag'] == 'Big':
                    case['exact'] = True
                res.evaluations += 1
                msg = check_case(case, spec)
                try:
                    ref = refsem.ev(f, w, len(t))
                except refsem.DomainError:
                    res.flags['domain_dropped'] += 1
                    ref = None
                if ref is not None and not combined and not struct and refsem.top_matters(f, w, len(t), ref):
                    res.nontrivial += 1
                if msg is not None:
                    if case.pop('buffers', None) is not None:
                        msg += ' (the caller re-uses one data set, refilled in place before every evaluate())'
                    fresh = check_case(case)
                    if fresh is None and prev is not None:
                        case['pre'] = [prev]
                        if check_case(case) is None:
                            case['pre'] = []
                            msg += ' (only on a re-used specification object, after %d earlier evaluations)' % ti
                    res.violation(_mod(), case, msg)
                    res.outcomes[msg.split(' is ')[0][:40]] += 1
                else:
                    res.outcomes['agree'] += 1
                    if case.pop('buffers', None) is not None:
                        res.flags['evaluations_on_refilled_buffers'] += 1
                if ti == 7:
                    res.sample({'spec': text, 'trace': w, 'times': times, 'reference': ref})
                res.digest(text, ti, msg)
                prev = {'trace': w, 'times': times}


def replay(case):
    m = check_case(case)
    return [m] if m else []


def finalize(agg, outcomes, flags, tier):
    from ..runner import Broken
    if agg['nontrivial'] < 1000:
        raise Broken('vacuous: only %d non-trivial cases' % agg['nontrivial'])
    if flags.get('life_nontrivial', 0) < 100:
        raise Broken('vacuous: only %d non-trivial cases on re-configured objects' % flags.get('life_nontrivial', 0))
    return {'cases_on_reconfigured_objects': flags.get('life_cases', 0)}


def _mod():
    import sys
    return sys.modules[__name__]
