"""C12 - get_value(name) is the robustness of the named formula, get_value(var) the supplied data (E1 + E2)."""
import copy
import sys

from .. import formula as F
from .. import refsem
from .. import dref
from .. import impl
from .. import explore
from .. import modular as M
from .. import reconf
from . import c02, c04, c05, c09

ID = 'C12'
LEVEL = 'model_checking'
RULE = ('specifications with 1-4 named assertions / sub-specifications (all decompositions of the base formulas, add_sub_spec and multi-assertion '
        'form); for every name n, get_value(n) after evaluate()/update() must equal what a STAND-ALONE real specification of the inlined formula of n '
        '(same monitor kind, pastified too if the specification was) returns on the same data: whole signal offline (one value per sample in discrete '
        'time, equal as a function in dense time), current value online; get_value(var) must be the supplied data. Online kinds are explored by BFS '
        '(discrete: product BFS over sample vectors; dense: all schedules) with the stand-alone monitors stepped in lock-step; in every second discrete online search reset() of the modular monitor is an event (at most twice per history) after which the oracle is a set of fresh stand-alone monitors; one obligation = one (state or data set, name) comparison; '
        'life layer: discrete offline objects that were used under another default unit / sampling period and then switched (vf/reconf.py), against fresh stand-alone specifications')
ASSUMPTIONS = ['the stand-alone monitors are the real implementation (their own correctness is C01-C05)',
               'dense results are compared as step functions on the grid of the common domain']


def vals_of(v):
    """discrete offline get_value: one value per sample (pairs [t, v] accepted)"""
    if isinstance(v, list) and v and isinstance(v[0], (list, tuple)) and len(v[0]) == 2:
        return [p[1] for p in v]
    return v


def spec_cases(tier):
    """(inlined top formula, defs, top-with-refs, subs texts, top text, future?)"""
    past, fut = c09.base_formulas('quick')
    limit = 4 if tier == 'quick' else 12
    out = []
    for fs, future in ((past, False), (fut, True)):
        for f in fs:
            for subs, text, defs, top in c09.variants(f, limit):
                out.append((f, defs, top, subs, text, future))
    for f in c09.arith_formulas():
        for subs, text, defs, top in c09.variants_any(f, limit, arith=True):
            out.append((f, defs, top, subs, text, False))
    # long node names: identifiers of about 100 characters, and one long sub-formula used in two different contexts (names and name
    # prefixes are keys of several look-up tables inside the monitors)
    px, py = F.PX, F.PY
    f1 = ('historically', (0, 2), ('historically', (0, 3), ('once', (1, 2), ('and', px, ('or', py, ('pred', '<=', F.X, F.C1))))))
    longs = [(('since', None, ('and', f1, py), ('or', f1, py)), False), (('and', ('implies', f1, px), ('prev', ('iff', f1, px))), False)]
    longs += [(F.rename(f), False) for f in past[::7]] + [(F.rename(f), True) for f in fut[::7]]
    longs += [(F.rename(('and', ('once', (0, 1), px), ('historically', (0, 1), ('pred', '<=', F.X, F.C1)))), False),
              (F.rename(('since', (1, 2), ('pred', '>', F.X, F.C0), ('or', ('pred', '<', F.X, F.C1), py))), False)]
    for f, future in longs:
        for subs, text, defs, top in c09.variants_any(f, 3 if tier == 'quick' else 10):
            out.append((f, defs, top, subs, text, future))
    # a BARE variable beside a future operator: pastify() has to delay the variable itself; get_value(variable) must stay the supplied data
    X, Y = F.X, F.Y
    bare = [('and', ('eventually', (0, 2), X), Y), ('or', Y, ('always', (0, 1), px)), ('-', ('next', X), Y), ('implies', ('eventually', (1, 2), px), X),
            ('and', ('once', (0, 1), Y), ('next', ('next', X))), ('pred', '>=', ('eventually', (0, 1), X), Y)]
    for f in bare:
        for subs, text, defs, top in c09.variants_any(f, 2 if tier == 'quick' else 6):
            out.append((f, defs, top, subs, text, True))
    return out


def life_specs():
    """(defs, top): named formulas with bounded operators; ('ref', n) refers to the definition n"""
    px, X = F.PX, F.X
    q1 = ('pred', '<=', X, F.C1)
    return [
        ([('p', ('once', (0, 1), px)), ('q', ('historically', (0, 2), q1))], ('and', ('ref', 'p'), ('always', (0, 1), ('ref', 'q')))),
        ([('p', ('eventually', (1, 2), X))], ('or', ('ref', 'p'), ('once', (1, 1), ('ref', 'p')))),
        ([('a', ('-', X, F.C1)), ('p', ('always', (0, 2), ('pred', '>=', ('ref', 'a'), F.C0)))], ('since', (0, 1), ('ref', 'p'), q1)),
    ]


def shards(tier):
    cs = spec_cases(tier)
    return [{'i': i} for i in range(len(cs))] + [{'life': i, 'suffix': sfx} for i in range(len(life_specs())) for sfx in ('', 's', 'ms')]


def run_life(shard, tier, res, mod):
    """get_value on specification objects with an earlier life under another default unit / sampling period (vf/reconf.py): the stand-alone
    oracle is a FRESH specification of the inlined formula configured with the target configuration from the start"""
    defs, top = life_specs()[shard['life']]
    suffix = shard['suffix']
    b = reconf.speller(suffix)
    env = dict(defs)
    f = F.inline(top, env)
    vs = sorted(F.fvars(f))
    subs = tuple('%s = %s;' % (n, F.pr(g, bound=b)) for n, g in defs)
    text = 'out = ' + F.pr(top, bound=b)
    named = [(n, F.inline(g, env)) for n, g in defs] + [('out', f)]
    case0 = {'life_layer': True, 'life_spec': shard['life'], 'suffix': suffix, 'spec': text, 'subspecs': list(subs), 'vars': vs}
    res.formulas += 1
    n = 3 if tier == 'quick' else 4
    for name, c1, f1, spec in reconf.lived_objects('dt_off', f, suffix, vs, res, mod, case0, text=text, build_kw={'subspecs': subs}):
        alone = {nm: reconf.build('dt_off', 'out = ' + F.pr(g, bound=b), vs, c1) for nm, g in named}
        for tr in F.traces(n, F.V2, len(vs)):
            w = F.trace_dict(tr, vs)
            times = reconf.times(c1, len(tr))
            res.evaluations += 1
            k, val = impl.outcome(impl.dt_evaluate, spec, w, times)
            msg = None
            if k != 'ok':
                msg = 'evaluate() raised %s' % (val,)
            else:
                for nm, g in named:
                    want = [q[1] for q in impl.dt_evaluate(alone[nm], w, times)]
                    got = impl.outcome(spec.get_value, nm)
                    if got[0] != 'ok' or not isinstance(vals_of(got[1]), list) or not refsem.same_list(vals_of(got[1]), want):
                        msg = ('object re-configured %s: get_value(%r) is %r; a fresh stand-alone specification `%s` under the new configuration evaluates to %r'
                               % (name, nm, got[1], F.pr(g, bound=b), want))
                        break
                    res.nontrivial += 1
                    res.flags['life_comparisons'] += 1
            if msg:
                res.violation(mod, dict(case0, life=name, trace=w, times=times), msg)
                res.outcomes['life'] += 1
            res.digest(text, name, tr, msg)
    res.sample({'spec': text, 'sub_specs': list(subs), 'lives': [l[0] for l in reconf.lives()][:3]}, 1)


def replay_life(case):
    defs, top = life_specs()[case['life_spec']]
    b = reconf.speller(case['suffix'])
    env = dict(defs)
    f = F.inline(top, env)
    vs = case['vars']
    named = [(n, F.inline(g, env)) for n, g in defs] + [('out', f)]
    c1, f1, spec = reconf.lived_object('dt_off', f, case['suffix'], vs, case['life'], text=case['spec'], build_kw={'subspecs': tuple(case['subspecs'])})
    impl.dt_evaluate(spec, case['trace'], case['times'])
    for nm, g in named:
        want = [q[1] for q in impl.dt_evaluate(reconf.build('dt_off', 'out = ' + F.pr(g, bound=b), vs, c1), case['trace'], case['times'])]
        got = impl.outcome(spec.get_value, nm)
        if got[0] != 'ok' or not refsem.same_list(vals_of(got[1]), want):
            return ['get_value(%r) is %r; fresh stand-alone gives %r' % (nm, got[1], want)]
    return []


class Bundle(object):
    def __init__(self, main, alone):
        self.main = main
        self.alone = alone
        self.msg = None
        self.compared = 0


class GvModel(c02.DtOnlineModel):
    """modular monitor and one stand-alone monitor per name, stepped in lock-step"""

    def __init__(self, f, defs, subs, text, pastify, form):
        delay = int(refsem.horizon(f)) if pastify else 0
        if form == 'multi':
            c02.DtOnlineModel.__init__(self, f, (F.V3, F.V2), text=' '.join(subs) + ' ' + text, pastify=pastify, delay=delay, offline=False)
        else:
            c02.DtOnlineModel.__init__(self, f, (F.V3, F.V2), text=text, pastify=pastify, delay=delay, subspecs=tuple(subs), offline=False)
        self.defs = defs
        self.named = [(n, F.inline(b, dict(defs))) for n, b in defs] + [('out', f)]
        self.with_reset = False

    def fresh(self):
        main = c02.DtOnlineModel.fresh(self)
        alone = {}
        for n, g in self.named:
            alone[n] = impl.build('dt_on', 'out = ' + F.pr(g), self.vs, pastify=self.pastify)
        return Bundle(main, alone)

    RESET = ('R',)

    def enabled(self, hist):
        # reset() of the modular monitor as an event: at most twice per history, never first and never twice in a row.  After it the oracle
        # is a set of FRESH stand-alone monitors (resetting them too would only compare reset() with itself)
        ev = list(self.events)
        if self.with_reset and hist and hist[-1] != self.RESET and hist.count(self.RESET) < 2:
            ev.append(self.RESET)
        return ev

    @classmethod
    def segment(cls, hist):
        if cls.RESET in hist:
            k = len(hist) - 1 - hist[::-1].index(cls.RESET)
            return hist[k + 1:]
        return hist

    def refkey(self, hist):
        return (hist.count(self.RESET), bool(hist) and hist[-1] == self.RESET, c02.DtOnlineModel.refkey(self, self.segment(hist)))

    def apply(self, b, hist, e):
        b.msg = None
        b.compared = 0
        if e == self.RESET:
            out = impl.outcome(b.main.reset)
            if out[0] != 'ok':
                b.msg = 'reset() raised %s' % (out[1],)
            b.alone = {n: impl.build('dt_on', 'out = ' + F.pr(g), self.vs, pastify=self.pastify) for n, g in self.named}
            return out
        hist = self.segment(hist)
        sample = dict(zip(self.vs, e))
        out = impl.outcome(impl.dt_update, b.main, len(hist), sample)
        if out[0] != 'ok':
            b.msg = 'update() raised %s' % (out[1],)
            return out
        for v, x in sample.items():
            k, got = impl.outcome(b.main.get_value, v)
            if k != 'ok' or got != x:
                b.msg = 'get_value(%r) is %r after update with %r' % (v, got, x)
                return out
        for n, g in self.named:
            k1, want = impl.outcome(impl.dt_update, b.alone[n], len(hist), sample)
            k2, got = impl.outcome(b.main.get_value, n)
            if k1 != 'ok':
                continue
            if k2 != 'ok' or not refsem.same(got, want):
                b.msg = ('get_value(%r) is %r after update %d; the stand-alone specification `%s` returns %r'
                         % (n, got, len(hist) + 1, F.pr(g), want))
                return out
            b.compared += 1
        return out

    def check(self, hist, out, b):
        if b.msg:
            return b.msg
        self.nontrivial += b.compared
        return None


def offline_dt(res, mod, case, f, defs, subs, text):
    vs = sorted(F.fvars(f))
    named = [(n, F.inline(b, dict(defs))) for n, b in defs] + [('out', f)]
    spec = impl.build('dt_off', text, vs, subspecs=tuple(subs))
    alone = {n: impl.build('dt_off', 'out = ' + F.pr(g), vs) for n, g in named}
    for tr in F.traces(3, F.V3 if len(vs) == 1 else F.V2, len(vs)):
        w = F.trace_dict(tr, vs)
        res.evaluations += 1
        k, val = impl.outcome(impl.dt_evaluate, spec, w)
        msg = None
        if k != 'ok':
            msg = 'evaluate() raised %s' % (val,)
        else:
            for v in vs:
                got = impl.outcome(spec.get_value, v)
                if got[0] != 'ok' or vals_of(got[1]) != w[v]:
                    msg = 'get_value(%r) is %r, supplied %r' % (v, got[1], w[v])
            for n, g in named:
                want = [p[1] for p in impl.dt_evaluate(alone[n], w)]
                got = impl.outcome(spec.get_value, n)
                if got[0] != 'ok' or not isinstance(vals_of(got[1]), list) or not refsem.same_list(vals_of(got[1]), want):
                    msg = 'get_value(%r) is %r; the stand-alone specification `%s` evaluates to %r' % (n, got[1], F.pr(g), want)
                    break
                res.nontrivial += 1
        if msg:
            res.violation(mod, dict(case, kind='dt_off', trace=w), msg)
            res.outcomes['dt_off'] += 1
        res.digest(text, tr, msg)


def offline_ct(res, mod, case, f, defs, subs, text, tier):
    vs = sorted(F.fvars(f))
    named = [(n, F.inline(b, dict(defs))) for n, b in defs] + [('out', f)]
    spec = impl.build('ct_off', text, vs, subspecs=tuple(subs))
    alone = {n: impl.build('ct_off', 'out = ' + F.pr(g), vs) for n, g in named}
    sigs = [s for s in c04.signal_sets(len(vs), 'quick') if min(v[0][0] for v in s.values()) == 0][::11 if tier == 'quick' else 3]
    for si, sig in enumerate(sigs):
        sig = {v: sig[v[0] if v[0] in sig else 'x'] for v in vs}
        res.evaluations += 1
        k, val = impl.outcome(impl.ct_evaluate, spec, sig)
        msg = None
        if k != 'ok':
            msg = 'evaluate() raised %s' % (val,)
        else:
            times = dref.query_times(0.0, max(s[-1][0] for s in sig.values()))
            for n, g in named:
                want = impl.ct_evaluate(alone[n], sig)
                got = impl.outcome(spec.get_value, n)
                if got[0] != 'ok' or not isinstance(got[1], list) or not got[1]:
                    msg = 'get_value(%r) is %r' % (n, got[1])
                    break
                bad = [t for t in times if not refsem.same(dref.stepval(got[1], t), dref.stepval(want, t))]
                if bad:
                    msg = 'get_value(%r) = %r differs at t=%r from the stand-alone `%s` = %r' % (n, got[1][:6], bad[0], F.pr(g), want[:6])
                    break
                res.nontrivial += 1
        if msg:
            res.violation(mod, dict(case, kind='ct_off', signals={v: [list(q) for q in s] for v, s in sig.items()}), msg)
            res.outcomes['ct_off'] += 1
        res.digest(text, si, msg)


class GvSchedule(c05.ScheduleModel):
    def __init__(self, f, defs, subs, text, vs, signals):
        self.subs = tuple(subs)
        self.named = [(n, F.inline(b, dict(defs))) for n, b in defs] + [('out', f)]
        c05.ScheduleModel.__init__(self, f, text, vs, signals, False)

    def fresh(self):
        main = impl.build('ct_on', self.text, self.vs, subspecs=self.subs)
        return Bundle(main, {n: impl.build('ct_on', 'out = ' + F.pr(g), self.vs) for n, g in self.named})

    def apply(self, b, hist, step):
        p = self.pos(hist)
        batches = {v: self.signals[v][p[i]:p[i] + step[i]] for i, v in enumerate(self.vs)}
        out = impl.outcome(impl.ct_update, b.main, batches)
        b.msg = None
        b.compared = 0
        if out[0] != 'ok':
            b.msg = 'update() raised %s' % (out[1],)
            return out
        for n, g in self.named:
            k1, want = impl.outcome(impl.ct_update, b.alone[n], batches)
            k2, got = impl.outcome(b.main.get_value, n)
            if k1 != 'ok':
                continue
            if k2 != 'ok' or explore.snapshot(got) != explore.snapshot(want):
                b.msg = 'get_value(%r) is %r after this update; the stand-alone `%s` returns %r' % (n, got, F.pr(g), want)
                return out
            b.compared += 1
        return ('ok', copy.deepcopy(out[1]))

    def check(self, hist, out, b):
        if b.msg:
            return b.msg
        self.nontrivial += b.compared
        return None

    def implkey(self, b):
        return explore.snapshot(b, ())


def run_shard(shard, tier, res):
    mod = sys.modules[__name__]
    if 'life' in shard:
        return run_life(shard, tier, res, mod)
    f, defs, top, subs, text, future = spec_cases(tier)[shard['i']]
    fj = F.to_json(f)
    case = {'formula': fj, 'defs': [[n, F.to_json(b)] for n, b in defs], 'spec': text, 'subspecs': list(subs), 'vars': sorted(F.fvars(f))}
    res.formulas += 1
    quick = tier == 'quick'
    p = dict(values=(F.V3, F.V2), maxdepth=5 if quick else 8, max_transitions=300 if quick else 4000, validate='first')
    forms = [('add', future)] + ([('add', True)] if not future and shard['i'] % 2 == 0 else []) + ([('multi', future)] if shard['i'] % 3 == 0 else [])
    for form, pastify in forms:
        m = GvModel(f, defs, subs, text, pastify, form)
        m.with_reset = shard['i'] % 2 == 1

        def on_violation(hist, msg, form=form, pastify=pastify):
            res.violation(mod, dict(case, kind='dt_on', form=form, pastify=pastify, history=[list(e) for e in hist], with_reset=m.with_reset), msg)
            res.outcomes['dt_on'] += 1
        st = explore.bfs(m, p['maxdepth'], p['max_transitions'], p['validate'], on_violation)
        res.states += st.states
        res.transitions += st.transitions
        res.traces += st.executions
        res.evaluations += st.transitions
        res.nontrivial += m.nontrivial
        res.digest(text, form, pastify, st.states, st.transitions)
        if m.with_reset:
            # two resets with updates in between (beyond the depth the capped BFS reaches): every history e1 R e2 e3 R e4 e5 over a reduced alphabet
            ev = m.events[::2] if len(m.events) > 3 else m.events
            import itertools as _it
            for es in _it.product(ev, repeat=5):
                hist = (es[0], m.RESET, es[1], es[2], m.RESET, es[3], es[4])
                b = m.fresh()
                res.traces += 1
                for i in range(len(hist)):
                    m.apply(b, hist[:i], hist[i])
                    res.transitions += 1
                    if b.msg:
                        on_violation(hist[:i + 1], b.msg)
                        break
                else:
                    res.flags['double_reset_histories'] += 1
                    res.nontrivial += 1
    offline_dt(res, mod, case, f, defs, subs, text)
    if c09.DENSE_OK(f) and not F.has_op(f, ('-',)):
        offline_ct(res, mod, case, f, defs, subs, text, tier)
        if not future:
            vs = sorted(F.fvars(f))
            for sig in c05.signal_sets(len(vs), 'quick')[:1 if quick else 4]:
                sig = {v: sig['x' if (v[0] == 'y' and len(vs) == 1) else v[0]] for v in vs}
                m = GvSchedule(f, defs, subs, text, vs, sig)

                def on_violation(hist, msg, sig=sig):
                    res.violation(mod, dict(case, kind='ct_on', signals={v: [list(q) for q in s] for v, s in sig.items()},
                                            schedule=[list(s) for s in hist]), msg)
                    res.outcomes['ct_on'] += 1
                st = explore.bfs(m, 64, 20000, 'first', on_violation)
                res.states += st.states
                res.transitions += st.transitions
                res.traces += st.executions
                res.evaluations += st.transitions
                res.nontrivial += m.nontrivial
    res.sample({'spec': text, 'sub_specs': subs, 'names_checked': [n for n, _ in defs] + ['out']}, 1)


def replay(case):
    if case.get('life_layer'):
        return replay_life(case)
    f = F.from_json(case['formula'])
    defs = [(n, F.from_json(b)) for n, b in case['defs']]
    subs, text = case['subspecs'], case['spec']
    kind = case['kind']

    class R(object):
        def __init__(self):
            self.msgs = []
            self.evaluations = self.nontrivial = 0
            import collections
            self.outcomes = collections.Counter()
        def violation(self, mod, c, msg):
            self.msgs.append(msg)
        def digest(self, *a):
            pass
    r = R()
    if kind == 'dt_on':
        m = GvModel(f, defs, subs, text, case['pastify'], case['form'])
        m.with_reset = bool(case.get('with_reset'))
        b = m.fresh()
        hist = tuple(tuple(e) for e in case['history'])
        for i, e in enumerate(hist):
            m.apply(b, hist[:i], e)
            if b.msg:
                return [b.msg]
        return []
    if kind == 'dt_off':
        vs = case['vars']
        w = case['trace']
        spec = impl.build('dt_off', text, vs, subspecs=tuple(subs))
        impl.dt_evaluate(spec, w)
        named = [(n, F.inline(b, dict(defs))) for n, b in defs] + [('out', f)]
        for n, g in named:
            want = [p[1] for p in impl.dt_evaluate(impl.build('dt_off', 'out = ' + F.pr(g), vs), w)]
            got = impl.outcome(spec.get_value, n)
            if got[0] != 'ok' or not refsem.same_list(vals_of(got[1]), want):
                return ['get_value(%r) is %r; stand-alone gives %r' % (n, got[1], want)]
        return []
    if kind == 'ct_on':
        sig = {v: [tuple(q) for q in s] for v, s in case['signals'].items()}
        m = GvSchedule(f, defs, subs, text, case['vars'], sig)
        b = m.fresh()
        hist = tuple(tuple(s) for s in case['schedule'])
        for i, st in enumerate(hist):
            m.apply(b, hist[:i], st)
            if b.msg:
                return [b.msg]
        return []
    offline_ct(r, None, case, f, defs, subs, text, 'thorough')
    return r.msgs[:1]


def finalize(agg, outcomes, flags, tier):
    from ..runner import Broken
    if agg['nontrivial'] < 1000:
        raise Broken('vacuous: only %d (data, name) comparisons' % agg['nontrivial'])
    if flags.get('life_comparisons', 0) < 500:
        raise Broken('vacuous: only %d comparisons on re-configured objects' % flags.get('life_comparisons', 0))
    return {'name_comparisons': agg['nontrivial'], 'of_which_on_reconfigured_objects': flags.get('life_comparisons', 0)}
