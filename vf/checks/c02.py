"""C02 - discrete-time online monitor equals offline evaluation at every step (engine E2, product BFS)."""
import itertools
import sys

from .. import formula as F
from .. import refsem
from .. import impl
from .. import explore

ID = 'C02'
LEVEL = 'model_checking'
RULE = ('explicit-state BFS per past-time formula: one transition = one real update() call on a freshly parsed monitor '
        'replayed from the event history; events = all sample vectors over the value alphabet; states merged on '
        '(generic object-graph dump of the monitor, reference summary of the history) with merges validated one step deep; '
        'invariant on every transition: update() value == reference rho at the last sample == rtamt offline evaluate(); '
        'non-trivial transition: the top operator mattered (reference output differs from every operand and is not +-inf); '
        'in a third of the shards the (name, value) pairs of every second update() are listed in reverse order; '
        'structured-sample layer: the variables presented as fields m.x / m.inner.x of one variable whose samples are objects; '
        'interface-aware layer: the same BFS under the four non-standard semantics with input/output declarations, over strict and non-strict predicates and a value alphabet that hits every threshold exactly (oracle: rho with the predicate rule of C06, and offline evaluate() under the same semantics); '
        'co-resident layer: two live monitors (same text, or one containing the other) stepped in every interleaving, with reset() of the second as an event - '
        'each update() must still equal the reference on that monitor\'s own samples')
ASSUMPTIONS = ['value alphabet V3 for the first variable, V3 or {-1,2} for the second; formulas with <= 2 operators, duplicates, 3-chains',
               'a search that closes (fixpoint) covers traces of every length over the alphabet; otherwise only up to the reported depth',
               'state key: generic walk of all objects reachable from the specification object, minus update_counter/previous_time']

PAST_U = ('not', 'prev', 's_prev', 'rise', 'fall', 'once', 'historically')
PAST_B = ('and', 'or', 'implies', 'iff', 'xor', 'since')


class DtOnlineModel(object):
    """the real discrete-time online monitor of one formula as a transition system"""

    def __init__(self, f, values, text=None, variables=None, pastify=False, delay=0, subspecs=(), consts=(),
                 build_kw=None, offline=True, drop=explore.DROP_DEFAULT):
        self.f = f
        self.vs = variables if variables is not None else (sorted(F.fvars(f)) or ['x'])
        self.text = text if text is not None else 'out = ' + F.pr(f)
        self.values = values
        vals = [values[min(i, len(values) - 1)] for i in range(len(self.vs))]
        self.events = list(itertools.product(*vals))
        self.pastify = pastify
        self.delay = delay
        self.kw = dict(build_kw or {})
        self.kw.update(subspecs=subspecs, consts=consts)
        self.K = F.max_bound(f) + 1
        self.subs = F.subforms(f)
        self.subs_h = [(g, int(refsem.horizon(g))) for g in self.subs]
        self.drop = drop
        self.exact = False      # True: values chosen so that every result is exactly representable; nothing is tolerated
        self.alternate = False   # True: every second update() lists the (name, value) pairs in reverse order
        self.off = None
        if offline:
            try:
                self.off = impl.build('dt_off', self.text, self.vs, **self.kw)
            except Exception:
                self.off = None
        self.nontrivial = 0

    def fresh(self):
        return impl.build('dt_on', self.text, self.vs, pastify=self.pastify, **self.kw)

    def apply(self, obj, hist, e):
        pairs = list(zip(self.vs, e))
        if self.alternate and len(hist) % 2 == 1:
            pairs.reverse()
        return impl.outcome(impl.dt_update, obj, len(hist), dict(pairs))

    def implkey(self, obj):
        return explore.snapshot(obj, self.drop)

    def trace(self, hist):
        return {v: [e[i] for e in hist] for i, v in enumerate(self.vs)}

    def refkey(self, hist):
        """reference summary: for every sub-formula g with horizon h_g, the last K values of its *settled*
        reference signal (positions t with t + h_g <= n-1) and min(#settled, K).  By structural induction over
        bounded-future STL the future settled outputs of every node depend on the history only through this
        summary (DESIGN.md section 1; for future-free formulas h_g = 0 and this is the last K values)."""
        n = len(hist)
        if n == 0:
            return ()
        w = self.trace(hist)
        K = self.K
        try:
            out = []
            for g, hg in self.subs_h:
                ns = max(0, n - hg)
                out.append((min(ns, K), tuple(refsem.ev(g, w, n)[:ns][-K:]) if ns else ()))
            return tuple(out)
        except refsem.DomainError:
            return ('dom', hist)

    def expected(self, hist):
        """reference value the last update must return, or None when the statement does not constrain it"""
        n = len(hist)
        i = n - 1 - self.delay
        if i < 0:
            return None
        try:
            return refsem.ev(self.f, self.trace(hist), n)[i]
        except refsem.DomainError:
            return None

    def check(self, hist, out, obj):
        kind, val = out
        n = len(hist)
        try:
            exp = self.expected(hist)
        except Exception:
            raise
        if kind != 'ok':
            try:
                refsem.ev(self.f, self.trace(hist), n)
            except refsem.DomainError:
                return explore.PRUNE  # the reference has a math domain error: outside the property
            return 'update() number %d raised %s' % (n, val)
        if exp is None:
            return None
        if not ((val == exp) if self.exact and val is not None else refsem.same(val, exp)):
            return 'update() number %d returned %r, reference rho(phi, w[0..%d], %d) is %r' % (
                n, val, n - 1, n - 1 - self.delay, exp)
        if self.off is not None and self.delay == 0:
            k2, v2 = impl.outcome(impl.dt_evaluate, self.off, self.trace(hist))
            if k2 == 'ok' and not ((v2[-1][1] == val) if self.exact else refsem.same(v2[-1][1], val)):
                return 'update() number %d returned %r but offline evaluate() gives %r at that sample' % (n, val, v2[-1][1])
        if self.delay == 0 and refsem.top_matters(self.f, self.trace(hist), n):
            self.nontrivial += 1
        elif self.delay:
            self.nontrivial += 1
        return None


class IaOnlineModel(DtOnlineModel):
    """the same transition system under an interface-aware semantics (set_var_io_type + semantics): the online monitor must still return,
    at every step, the offline value of the SAME semantics - reference rho with the predicate hook of C06 and rtamt's own offline evaluate()"""

    def __init__(self, f, values, semantics, io, **kw):
        from . import c06
        DtOnlineModel.__init__(self, f, values, build_kw={'semantics': semantics, 'io_types': io}, **kw)
        self.hook = c06.make_hook(semantics, io)

    def expected(self, hist):
        n = len(hist)
        try:
            return refsem.ev(self.f, self.trace(hist), n, self.hook)[n - 1]
        except refsem.DomainError:
            return None


IA_VALUES = ((-1.0, 0.0, 1.0), (0.0, 1.0))      # both thresholds (x ? 0, y ? 1) and x == y are hit exactly
IA_CONFIGS = (('output_robustness', {'x': 'input', 'y': 'output'}), ('input_robustness', {'x': 'output', 'y': 'input'}),
              ('output_robustness', {'x': 'input', 'y': 'input'}), ('input_vacuity', {'x': 'output', 'y': 'output'}),
              ('output_vacuity', {'x': 'input', 'y': 'output'}), ('input_robustness', {'x': 'input', 'y': 'output'}))


def ia_set(tier):
    """one-operator past formulas (and a few two-operator ones) over strict and non-strict predicates on x only, y only and both"""
    GT, LT, NE = ('pred', '>', F.X, F.C0), ('pred', '<', F.Y, F.C1), ('pred', '!==', F.X, F.Y)
    MIX = ('pred', '>', ('+', F.X, F.Y), F.C1)
    U = F.unary_ops(F.I_QUICK, ops=PAST_U)
    B = F.binary_ops(F.I_QUICK, ops=PAST_B, unless=False)
    fs = list(F.F(1, U, B, [(GT, LT, GT), (NE, F.PX, NE), (F.PX, F.PY, MIX), (LT, MIX, F.PX)]))
    fs += [('and', ('once', (0, 1), GT), ('or', MIX, ('historically', None, LT))), ('since', None, ('not', NE), ('prev', GT)),
           ('implies', ('rise', GT), ('once', (1, 2), LT)), ('and', ('pred', '>=', ('prev', F.X), ('prev', F.Y)), LT)]
    out = list(dict.fromkeys(fs))
    return out[::2] if tier == 'quick' else out


def dup_formulas():
    px, py, X, Y = F.PX, F.PY, F.X, F.Y
    stateful = [('prev', X), ('s_prev', px), ('once', (0, 1), X), ('historically', (1, 2), px), ('rise', px), ('fall', X),
                ('once', None, X), ('historically', None, px), ('since', (1, 2), px, py), ('since', None, X, Y),
                ('once', (1, 1), ('prev', X))]
    out = []
    for f in stateful:
        for op in ('-', '+', 'and', 'or', 'iff', 'xor', 'implies'):
            out.append((op, f, f))
        out.append(('and', ('not', f), f))
        out.append(('or', ('prev', f), f))
        out.append(('since', None, f, f))
        out.append(('and', ('once', (0, 1), f), ('or', f, py)))
    return out


def formula_set(tier):
    quick = tier == 'quick'
    I = ((0, 1), (1, 2)) if quick else F.I_FULL
    U = F.unary_ops(I, ops=PAST_U)
    B = F.binary_ops(I, ops=PAST_B, unless=False)
    leaf = [(F.PX, F.PY, F.X)]
    fs = list(F.F(2, U, B, leaf))
    fs += dup_formulas()
    if quick:
        Uc = [('prev',), ('rise',), ('once', (1, 2)), ('historically', (0, 1))]
    else:
        Uc = F.unary_ops(((0, 1), (1, 2)), ops=PAST_U)
    fs += list(F.chains(3, Uc, F.PX))
    fs += [f for f in F.patterns() if F.past_only(f)]
    out, seen = [], set()
    for f in fs:
        if f not in seen:
            seen.add(f)
            out.append(f)
    return out


def params(tier):
    if tier == 'quick':
        return dict(values=(F.V3, F.V2), maxdepth=6, max_transitions=600, validate='first')
    return dict(values=(F.V3, F.V3), maxdepth=8, max_transitions=4000, validate='first')


def deep_set(tier):
    """bounds up to 7 and three nested temporal operators; explored over a two-letter alphabet to a larger depth"""
    d = F.deep_formulas(PAST_U, ('since',), future=False)
    return d if tier != 'quick' else d[::4]


def deep_params(tier):
    if tier == 'quick':
        return dict(values=(F.V2, F.V2), maxdepth=16, max_transitions=2000, validate='none')
    return dict(values=(F.V2, F.V2), maxdepth=24, max_transitions=40000, validate='first')


class CoResidentModel(object):
    """two live online monitors A and B in one process, stepped in every interleaving; B holds the same formula text as A or a formula
    that contains it (so every node name of A also names a node of B).  Events: ('A', sample) | ('B', sample) | ('Br',) = reset of B.
    The value of every update() must be the reference robustness of that monitor's own formula on that monitor's own samples."""

    def __init__(self, f, g, values):
        self.a = DtOnlineModel(f, values, offline=False)
        self.b = DtOnlineModel(g, values, variables=self.a.vs, offline=False)
        self.f, self.g = f, g
        self.text = self.a.text + '  ||  ' + self.b.text
        self.events = [(w, e) for e in self.a.events for w in 'AB'] + [('Br',)]
        self.nontrivial = 0

    def fresh(self):
        return [self.a.fresh(), self.b.fresh()]

    def own(self, hist, who):
        """the samples monitor `who` has received since its construction / last reset"""
        out = []
        for e in hist:
            if e[0] == who:
                out.append(e[1])
            elif e == ('Br',) and who == 'B':
                out = []
        return tuple(out)

    def apply(self, obj, hist, e):
        if e == ('Br',):
            return impl.outcome(obj[1].reset)
        m, o = (self.a, obj[0]) if e[0] == 'A' else (self.b, obj[1])
        return m.apply(o, self.own(hist, e[0]), e[1])

    def implkey(self, obj):
        return (self.a.implkey(obj[0]), self.b.implkey(obj[1]))

    def refkey(self, hist):
        return (self.a.refkey(self.own(hist, 'A')), self.b.refkey(self.own(hist, 'B')))

    def check(self, hist, out, obj):
        e = hist[-1]
        if e == ('Br',):
            return None if out[0] == 'ok' else 'reset() of the second monitor raised %s' % (out[1],)
        m = self.a if e[0] == 'A' else self.b
        msg = m.check(self.own(hist, e[0]), out, None)
        if msg and msg is not explore.PRUNE:
            return 'monitor %s (%s), with another live monitor %s in the process: %s' % (e[0], m.text, (self.b if e[0] == 'A' else self.a).text, msg)
        if msg is None and self.own(hist, 'A') and self.own(hist, 'B'):
            self.nontrivial += 1
        return msg


def coresident_set(tier):
    """(f, g): stateful past formulas f with g = f (same text) and g = a formula containing f"""
    px, py, X = F.PX, F.PY, F.X
    base = [('prev', X), ('once', (0, 1), X), ('historically', (1, 2), px), ('rise', px), ('once', None, X), ('historically', None, px),
            ('since', (1, 2), px, py), ('since', None, px, py), ('once', (1, 1), ('prev', X)), ('and', ('once', (0, 2), px), ('prev', px)),
            ('fall', X), ('s_prev', px), ('once', (0, 8), X), ('historically', (2, 5), px)]
    if tier == 'quick':
        base = base[::2] + [('since', (1, 2), px, py)]
    out = []
    for f in base:
        out.append((f, f))
        out.append((f, ('prev', f)))
    return out


def run_coresident(res, mod, f, g, tier):
    m = CoResidentModel(f, g, (F.V3, F.V2))
    fj, gj = F.to_json(f), F.to_json(g)

    def on_violation(hist, msg):
        res.violation(mod, {'coresident': True, 'formula': fj, 'formula_b': gj, 'spec': m.a.text, 'spec_b': m.b.text, 'vars': m.a.vs,
                            'history': [[e[0]] + ([list(e[1])] if len(e) > 1 else []) for e in hist]}, msg)
        res.outcomes['co-resident monitor mismatch'] += 1

    quick = tier == 'quick'
    st = explore.bfs(m, 5 if quick else 7, 700 if quick else 20000, 'first', on_violation)
    res.formulas += 1
    res.states += st.states
    res.transitions += st.transitions
    res.traces += st.executions
    res.evaluations += st.transitions
    res.nontrivial += m.nontrivial
    res.flags['coresident_pairs'] += 1
    res.flags['coresident_transitions'] += st.transitions
    if st.canon_divergence:
        res.flags['canon_divergence'] += st.canon_divergence
    res.outcomes['co-resident pair explored'] += 1
    res.digest(m.text, st.states, st.transitions)
    return st, m


def shards(tier):
    fs = formula_set(tier)
    per = 6 if tier == 'quick' else 2
    out = [{'formulas': [F.to_json(f) for f in fs[i:i + per]]} for i in range(0, len(fs), per)]
    for k in range(0, len(out), 3):
        out[k]['alternate'] = True       # in these shards the (name, value) pairs of every second update() are listed in reverse order
    ds = deep_set(tier)
    out += [{'formulas': [F.to_json(f) for f in ds[i:i + 2]], 'deep': True} for i in range(0, len(ds), 2)]
    ls = long_set(tier)
    out += [{'formulas': [F.to_json(f) for f in ls[i:i + 2]], 'long': True} for i in range(0, len(ls), 2)]
    bs = big_set()
    out += [{'formulas': [F.to_json(f) for f in bs[i:i + 4]], 'big': True} for i in range(0, len(bs), 4)]
    ln = longname_set()
    out += [{'formulas': [F.to_json(f) for f in ln[i:i + 4]], 'longnames': True} for i in range(0, len(ln), 4)]
    its = int_set()
    out += [{'formulas': [F.to_json(f) for f in its[i:i + 6]], 'ints': True} for i in range(0, len(its), 6)]
    ss = int_set()[::2] + [f for f in F.patterns() if F.past_only(f)][:8]
    out += [{'formulas': [F.to_json(f) for f in ss[i:i + 6]], 'struct': ('flat', 'nested')[(i // 6) % 2]} for i in range(0, len(ss), 6)]
    ia = ia_set(tier)
    out += [{'formulas': [F.to_json(f) for f in ia[i:i + 6]], 'ia': i // 6} for i in range(0, len(ia), 6)]
    cs = coresident_set(tier)
    out += [{'coresident': [(F.to_json(f), F.to_json(g)) for f, g in cs[i:i + 2]]} for i in range(0, len(cs), 2)]
    return out


def longname_set():
    """identifiers of about 100 characters and long sub-formulas that differ only far to the right: node names (and their prefixes) are
    keys of look-up tables inside the online monitor"""
    px, py, X = F.PX, F.PY, F.X
    p2, p3 = ('pred', '<=', X, F.C1), ('pred', '>', X, F.C0)
    base = [('and', px, p2), ('or', ('prev', px), ('prev', p2)), ('since', None, p3, p2), ('and', ('once', (0, 1), px), ('once', (0, 1), p2)),
            ('iff', ('historically', (1, 2), p3), ('historically', (1, 2), px)), ('implies', ('rise', px), ('rise', p2)), ('xor', ('-', X, F.Y), ('+', X, F.Y))]
    f1 = ('historically', (0, 2), ('historically', (0, 3), ('once', (1, 2), ('and', px, ('or', py, p2)))))
    deep = [('since', None, ('and', f1, py), ('or', f1, py)), ('and', ('implies', f1, px), ('prev', ('iff', f1, px))), ('xor', ('once', (0, 1), f1), ('once', (0, 2), f1))]
    return [F.rename(f) for f in base] + deep + [F.rename(f) for f in dup_formulas()[::9]]


INT_VALUES = ((-1, 0, 2), (-1, 2))


def int_set():
    """one-operator formulas and arithmetic atoms monitored on Python int samples"""
    U = F.unary_ops(F.I_QUICK, ops=PAST_U)
    B = F.binary_ops(F.I_QUICK, ops=PAST_B, unless=False)
    fs = list(F.F(1, U, B, [(F.PX, F.PY, F.X)]))
    fs += [('pred', '>=', t, F.C0) for t in F.arith_terms(1) if t[0] not in ('sqrt', 'ln', 'log', 'exp')]
    return fs


BIG = 1e9
BIG_VALUES = ((BIG, BIG + 1.0, BIG + 2.0), (0.0, BIG))


def big_set():
    """sample values of magnitude 1e9 that differ by one unit; results compared exactly"""
    X, Y = F.X, F.Y
    s = ('+', X, Y)
    p = ('pred', '<=', s, ('const', 2 * BIG + 1.5))
    q = ('pred', '>', Y, F.C0)
    return [s, p, ('-', X, Y), ('and', X, Y), ('or', X, Y), ('pred', '>=', X, Y), ('pred', '==', X, s), ('prev', s), ('rise', p), ('fall', p),
            ('once', (0, 1), s), ('historically', (1, 2), s), ('once', None, X), ('historically', None, s), ('since', None, p, q),
            ('since', (0, 1), X, s), ('once', (1, 2), p), ('and', ('prev', p), q), ('abs', ('-', Y, X)), ('implies', q, ('historically', (0, 1), p))]


def long_set(tier):
    """formulas monitored on the fixed family of LONG traces (behaviour that depends on the number of updates: buffers compacted in
    blocks, counters, caches): deep and wide bounds plus every one-operator past formula"""
    ds = F.deep_formulas(PAST_U, ('since',), future=False)
    fs = (ds[::5] if tier == 'quick' else ds) + F.wide_formulas(PAST_U, ('since',), future=False)[::(2 if tier == 'quick' else 1)]
    U = F.unary_ops(F.I_QUICK, ops=PAST_U)
    fs += [F.ap1(u, F.PX) for u in U] + [('since', None, F.PX, F.PY), ('since', (1, 2), F.PX, F.PY)] + [f for f in F.patterns() if F.past_only(f)]
    return fs


LONG_N = 48


def run_long(res, mod, f, tier, pastify=False, delay=0, text=None):
    """every trace of the long family: one fresh monitor, one update per sample, each value compared with the reference"""
    m = DtOnlineModel(f, (F.V3, F.V2), text=text, pastify=pastify, delay=delay, offline=False)
    vs = m.vs
    traces = F.long_traces(len(vs), LONG_N, F.V3 if len(vs) == 1 else F.V2)
    if tier == 'quick':
        traces = traces[::3]
    fj = F.to_json(f)
    for t in traces:
        w = {v: [e[i] for e in t] for i, v in enumerate(vs)}
        try:
            ref = refsem.ev(f, w, len(t))
        except refsem.DomainError:
            continue
        obj = m.fresh()
        res.evaluations += 1
        res.traces += 1
        bad = None
        for i, e in enumerate(t):
            pairs = list(zip(vs, e))
            if i % 2:
                pairs.reverse()          # the order of the (name, value) pairs is the caller's business and may change from call to call
            k, v = impl.outcome(impl.dt_update, obj, i, dict(pairs))
            res.transitions += 1
            if k != 'ok':
                bad = 'update() number %d raised %s' % (i + 1, v)
                break
            if i >= delay:
                exp = ref[i - delay]    # delay = horizon: position i - delay is settled on w[0..i], its value is that on the whole trace
                if not refsem.same(v, exp):
                    bad = 'update() number %d returned %r, reference rho at sample %d is %r (long run)' % (i + 1, v, i - delay, exp)
                    break
        if bad:
            res.violation(mod, {'formula': fj, 'spec': m.text, 'vars': vs, 'history': [list(e) for e in t[:i + 1]], 'pastify': pastify, 'delay': delay}, bad)
            res.outcomes['long run mismatch'] += 1
        else:
            res.nontrivial += 1
            res.outcomes['long run agrees'] += 1
        res.digest(m.text, t[:6], bool(bad))
    res.states += 1
    res.formulas += 1


def explore_formula(res, mod, f, p, model=None, extra=None):
    m = model or DtOnlineModel(f, p['values'])
    fj = F.to_json(f)

    def on_violation(hist, msg):
        case = {'formula': fj, 'spec': m.text, 'vars': m.vs, 'history': [list(e) for e in hist],
                'pastify': m.pastify, 'delay': m.delay}
        if extra:
            case.update(extra)
        res.violation(mod, case, msg)
        res.outcomes[msg.split(' returned ')[0].split(' raised ')[-1][:50]] += 1

    st = explore.bfs(m, p['maxdepth'], p['max_transitions'], p['validate'], on_violation)
    res.formulas += 1
    res.states += st.states
    res.transitions += st.transitions
    res.traces += st.executions
    res.evaluations += st.transitions
    res.nontrivial += m.nontrivial
    res.flags['fixpoint' if st.fixpoint else 'no_fixpoint'] += 1
    res.flags['merges'] += st.merges
    res.flags['merges_validated'] += st.merges_validated
    res.flags['maxdepth_%d' % st.maxdepth] += 1
    if st.canon_divergence:
        res.flags['canon_divergence'] += st.canon_divergence
    res.outcomes['fixpoint' if st.fixpoint else 'bounded'] += 1
    res.digest(m.text, st.states, st.transitions, st.fixpoint)
    return st, m


def run_shard(shard, tier, res):
    p = deep_params(tier) if shard.get('deep') else params(tier)
    mod = sys.modules[__name__]
    for fj, gj in shard.get('coresident', ()):
        st, m = run_coresident(res, mod, F.from_json(fj), F.from_json(gj), tier)
        res.sample({'monitor_a': m.a.text, 'monitor_b': m.b.text, 'events': len(m.events), 'states': st.states, 'transitions': st.transitions,
                    'max_depth': st.maxdepth}, 1)
    for fj in shard.get('formulas', ()):
        f = F.from_json(fj)
        if shard.get('long'):
            run_long(res, mod, f, tier)
            res.sample({'spec': 'out = ' + F.pr(f), 'long_traces': len(F.long_traces(len(F.fvars(f)) or 1, LONG_N, F.V3 if len(F.fvars(f)) < 2 else F.V2)), 'length': LONG_N}, 1)
            continue
        model = extra = None
        if shard.get('ints'):
            p = dict(values=INT_VALUES, maxdepth=5, max_transitions=300 if tier == 'quick' else 3000, validate='first')
        if shard.get('big'):
            model = DtOnlineModel(f, BIG_VALUES)
            model.exact = True
            extra = {'exact': True}
            p = dict(values=BIG_VALUES, maxdepth=5, max_transitions=400 if tier == 'quick' else 4000, validate='first')
        if shard.get('struct'):
            # the variables are fields (m.x / m.inner.x) of ONE variable whose samples are objects
            model = DtOnlineModel(f, p['values'], build_kw={'struct': shard['struct']})
            extra = {'struct': shard['struct']}
            res.flags['searches_on_structured_samples'] += 1
        if 'ia' in shard:
            k = (shard['ia'] + res.formulas) % len(IA_CONFIGS)
            sem, io = IA_CONFIGS[k]
            io = {v: t for v, t in io.items() if v in F.fvars(f)}
            model = IaOnlineModel(f, IA_VALUES, sem, io)
            extra = {'ia': [sem, io]}
            p = dict(values=IA_VALUES, maxdepth=5, max_transitions=500 if tier == 'quick' else 5000, validate='first')
            res.flags['interface_aware_searches'] += 1
        if len(F.fvars(f)) >= 2 and (shard.get('ints') or shard.get('longnames') or shard.get('alternate')) and model is None:
            model = DtOnlineModel(f, p['values'])
            model.alternate = True
            extra = {'alternate': True}
            res.flags['alternating_pair_order'] += 1
        st, m = explore_formula(res, mod, f, p, model=model, extra=extra)
        res.sample({'spec': m.text, 'events': [list(e) for e in m.events[:4]], 'states': st.states,
                    'transitions': st.transitions, 'fixpoint': st.fixpoint, 'max_depth': st.maxdepth}, 1)


def check_coresident(case):
    m = CoResidentModel(F.from_json(case['formula']), F.from_json(case['formula_b']), (F.V3, F.V2))
    hist = tuple((e[0], tuple(e[1])) if len(e) > 1 else (e[0],) for e in case['history'])
    obj = m.fresh()
    msgs = []
    for i in range(len(hist)):
        out = m.apply(obj, hist[:i], hist[i])
        msg = m.check(hist[:i + 1], out, obj)
        if msg is explore.PRUNE:
            break
        if msg:
            msgs.append(msg)
    return msgs


def check_case(case):
    if case.get('coresident'):
        return check_coresident(case)
    f = F.from_json(case['formula'])
    if case.get('ia'):
        m = IaOnlineModel(f, IA_VALUES, case['ia'][0], case['ia'][1])
    else:
        m = DtOnlineModel(f, (F.V3,), text=case['spec'], variables=case['vars'], pastify=case.get('pastify', False),
                          delay=case.get('delay', 0), subspecs=case.get('subspecs', ()), consts=[tuple(c) for c in case.get('consts', ())],
                          build_kw={'struct': case['struct']} if case.get('struct') else None)
    m.exact = bool(case.get('exact'))
    m.alternate = bool(case.get('alternate'))
    obj = m.fresh()
    hist = tuple(tuple(e) for e in case['history'])
    msgs = []
    for i, e in enumerate(hist):
        out = m.apply(obj, hist[:i], e)
        msg = m.check(hist[:i + 1], out, obj)
        if msg is explore.PRUNE:
            break
        if msg:
            msgs.append(msg)
    return msgs


def replay(case):
    return check_case(case)


def finalize(agg, outcomes, flags, tier):
    from ..runner import Broken
    if agg['nontrivial'] < 1000:
        raise Broken('vacuous: only %d non-trivial transitions' % agg['nontrivial'])
    if not flags.get('fixpoint'):
        raise Broken('no search reached a fixpoint')
    if flags.get('canon_divergence'):
        return {'canon_divergence': flags['canon_divergence']}
    return {'fixpoints': flags.get('fixpoint', 0), 'bounded_searches': flags.get('no_fixpoint', 0),
            'merges_validated': flags.get('merges_validated', 0)}
