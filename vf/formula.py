"""Formulas as nested tuples, printers and bounded-exhaustive enumerators.

No rtamt import here.  A formula is one of
  ('var', name) | ('const', number)
  ('pred', cmp, lhs, rhs)                      cmp in >= > <= < == !==
  ('+'|'-'|'*'|'/', a, b) | ('neg'|'abs'|'sqrt'|'exp'|'ln', a) | ('pow'|'log', a, b)
  ('not'|'prev'|'s_prev'|'next'|'s_next'|'rise'|'fall', f)
  ('and'|'or'|'implies'|'iff'|'xor', f, g)
  ('once'|'historically'|'eventually'|'always', I, f)      I = None | (a, b)
  ('since'|'until'|'unless', I, f, g)
  ('ref', name)                                 reference to a named sub-specification (C09/C12)
Interval entries are numbers in the *base unit* of the check (samples for discrete time with the default
1 s period, time units for dense time); a printer option decides how they are spelled.
"""
import itertools

UN_T = ('once', 'historically', 'eventually', 'always')
BIN_T = ('since', 'until', 'unless')
UN_B = ('not', 'prev', 's_prev', 'next', 's_next', 'rise', 'fall')
BIN_B = ('and', 'or', 'implies', 'iff', 'xor')
ARITH2 = ('+', '-', '*', '/')
ARITH1 = ('neg', 'abs', 'sqrt', 'exp', 'ln')
ARITHF2 = ('pow', 'log')
FUTURE = ('next', 's_next', 'eventually', 'always', 'until', 'unless')
PASTOPS = ('prev', 's_prev', 'rise', 'fall', 'once', 'historically', 'since')


def is_formula(c):
    return isinstance(c, tuple) and len(c) > 0 and isinstance(c[0], str)


def children(f):
    op = f[0]
    if op in ('var', 'const', 'ref'):
        return ()
    if op == 'pred':
        return (f[2], f[3])
    if op in UN_T:
        return (f[2],)
    if op in BIN_T:
        return (f[2], f[3])
    return tuple(f[1:])


def interval(f):
    if f[0] in UN_T or f[0] in BIN_T:
        return f[1]
    return None


def rebuild(f, kids):
    op = f[0]
    if op in ('var', 'const', 'ref'):
        return f
    if op == 'pred':
        return ('pred', f[1], kids[0], kids[1])
    if op in UN_T:
        return (op, f[1], kids[0])
    if op in BIN_T:
        return (op, f[1], kids[0], kids[1])
    return (op,) + tuple(kids)


def fnum(v):
    """spell a number so that rtamt's lexer reads it back exactly (dyadic values only)"""
    if isinstance(v, int) or float(v).is_integer():
        return str(int(v))
    return repr(float(v))


def default_bound(I):
    return '[%s,%s]' % (fnum(I[0]), fnum(I[1]))


def _atomic(f):
    op = f[0]
    if op in ('var', 'ref', 'abs', 'sqrt', 'exp', 'ln', 'pow', 'log', 'rise', 'fall'):
        return True
    if op == 'const':
        return isinstance(f[1], str) or f[1] >= 0
    return False


def pr(f, bound=default_bound, names=None):
    """keyword spelling in which every composite operand is parenthesised (no reliance on precedence)"""
    op = f[0]

    def P(g):
        t = pr(g, bound, names)
        return t if _atomic(g) else '(' + t + ')'

    def A(g):  # function-call argument: the call's own parentheses delimit it
        return pr(g, bound, names)
    if op == 'var':
        return f[1]
    if op == 'ref':
        return f[1]
    if op == 'const':
        v = f[1]
        if isinstance(v, str):
            return v
        return fnum(v) if v >= 0 else '-%s' % fnum(-v)
    if op == 'pred':
        return '%s %s %s' % (P(f[2]), f[1], P(f[3]))
    if op in ARITH2:
        return '%s %s %s' % (P(f[1]), op, P(f[2]))
    if op == 'neg':
        return '-%s' % P(f[1])
    if op in ('abs', 'sqrt', 'exp', 'ln'):
        return '%s(%s)' % (op, A(f[1]))
    if op in ARITHF2:
        return '%s(%s,%s)' % (op, A(f[1]), A(f[2]))
    if op in ('not', 'prev', 's_prev', 'next', 's_next'):
        return '%s %s' % (op, P(f[1]))
    if op in ('rise', 'fall'):
        return '%s(%s)' % (op, A(f[1]))
    if op in BIN_B:
        return '%s %s %s' % (P(f[1]), op, P(f[2]))
    if op in UN_T:
        b = '' if f[1] is None else bound(f[1])
        return '%s%s %s' % (op, b, P(f[2]))
    if op in BIN_T:
        b = '' if f[1] is None else bound(f[1])
        return '%s %s%s %s' % (P(f[2]), op, b, P(f[3]))
    raise ValueError(op)


_LEAF = None


def slim(text):
    """drop the parentheses around bare identifiers and unsigned literals: '((x) >= (0))' -> '(x >= 0)'"""
    global _LEAF
    if _LEAF is None:
        import re
        _LEAF = re.compile(r'(?<![A-Za-z0-9_])\(([A-Za-z_][A-Za-z0-9_]*|[0-9]+(?:\.[0-9]+)?)\)')
    return _LEAF.sub(r'\1', text)


def fvars(f, acc=None):
    acc = set() if acc is None else acc
    if f[0] == 'var':
        acc.add(f[1])
    for c in children(f):
        fvars(c, acc)
    return acc


def subforms(f, acc=None):
    """all sub-formula occurrences, pre-order, constants skipped"""
    acc = [] if acc is None else acc
    if f[0] == 'const':
        return acc
    acc.append(f)
    for c in children(f):
        subforms(c, acc)
    return acc


def ops_in(f, acc=None):
    acc = set() if acc is None else acc
    acc.add(f[0])
    for c in children(f):
        ops_in(c, acc)
    return acc


def has_op(f, ops):
    return bool(ops_in(f) & set(ops))


def any_node(f, pred):
    if pred(f):
        return True
    return any(any_node(c, pred) for c in children(f))


def size(f):
    """number of operators above atoms (predicates / bare variables count 0)"""
    if f[0] in ('var', 'const', 'pred', 'ref') or f[0] in ARITH1 + ARITH2 + ARITHF2:
        return 0
    return 1 + sum(size(c) for c in children(f))


def is_temporal_unbounded_future(f):
    return any_node(f, lambda g: g[0] in ('eventually', 'always', 'until', 'unless') and g[1] is None)


def past_only(f):
    return not has_op(f, FUTURE)


def max_bound(f):
    """largest interval bound of any temporal operator in f (at least 1)"""
    m = 1
    for g in subforms(f):
        I = interval(g)
        if I is not None:
            m = max(m, int(I[1]))
    return m


def max_past_bound(f):
    m = 1
    def go(g):
        nonlocal m
        if g[0] in ('once', 'historically', 'since') and g[1] is not None:
            m = max(m, int(g[1][1]) + 1)
        if g[0] in ('prev', 's_prev', 'rise', 'fall'):
            m = max(m, 2)
        for c in children(g):
            go(c)
    go(f)
    return m


# ---------------------------------------------------------------------------------------------------
# alphabets (DESIGN section 2)
X = ('var', 'x')
Y = ('var', 'y')
Z = ('var', 'z')
C0 = ('const', 0.0)
C1 = ('const', 1.0)
C2 = ('const', 2.0)
CH = ('const', 0.5)

V3 = (-1.0, 0.0, 2.0)
V2 = (-1.0, 2.0)
V5 = (-2.0, -1.0, 0.0, 1.0, 2.0)
VBOOL = (-1.0, 1.0)
VPOS = (0.5, 1.0, 2.0, 4.0)

I_FULL = ((0, 0), (0, 1), (1, 1), (0, 2), (1, 2), (2, 3))
I_QUICK = ((0, 1), (1, 1), (1, 2))

PX = ('pred', '>=', X, C0)
PY = ('pred', '<=', Y, C1)
ATOMS = (
    PX, PY,
    ('pred', '>', ('+', X, Y), C1),
    ('pred', '==', X, Y),
    ('pred', '!==', X, C0),
    ('pred', '<', ('abs', ('-', X, Y)), C1),
    ('pred', '>=', ('neg', X), C0),
    ('pred', '>=', ('*', X, Y), C0),
    ('pred', '<=', ('/', X, C2), Y),
    ('pred', '>', ('-', X, Y), C0),
    X, Y,
)

UNARY_PLAIN = ('not', 'prev', 's_prev', 'next', 's_next', 'rise', 'fall')


def unary_ops(intervals, unbounded=True, ops=None):
    """list of constructors g -> formula"""
    out = []
    for op in UNARY_PLAIN:
        if ops is None or op in ops:
            out.append((op,))
    for op in UN_T:
        if ops is None or op in ops:
            if unbounded:
                out.append((op, None))
            for I in intervals:
                out.append((op, I))
    return out


def binary_ops(intervals, unbounded=True, ops=None, unless=True):
    out = []
    for op in BIN_B:
        if ops is None or op in ops:
            out.append((op,))
    for op in ('since', 'until'):
        if ops is None or op in ops:
            if unbounded:
                out.append((op, None))
            for I in intervals:
                out.append((op, I))
    if unless and (ops is None or 'unless' in ops):
        for I in intervals:
            out.append(('unless', I))
    return out


def ap1(u, g):
    return u + (g,)


def ap2(b, g, h):
    return b + (g, h)


def schemas(k, U, B):
    """all operator trees with exactly k operators over leaf holes 0,1,2 (left-to-right), k in 0..2"""
    H0, H1, H2 = ('hole', 0), ('hole', 1), ('hole', 2)
    if k == 0:
        yield H0
    elif k == 1:
        for u in U:
            yield ap1(u, H0)
        for b in B:
            yield ap2(b, H0, H1)
    elif k == 2:
        for u in U:
            for v in U:
                yield ap1(u, ap1(v, H0))
            for b in B:
                yield ap1(u, ap2(b, H0, H1))
        for b in B:
            for u in U:
                yield ap2(b, ap1(u, H0), H1)
                yield ap2(b, H0, ap1(u, H1))
            for c in B:
                yield ap2(b, ap2(c, H0, H1), H2)
                yield ap2(b, H0, ap2(c, H1, H2))
    else:
        raise ValueError(k)


def fill(s, leaves):
    if s[0] == 'hole':
        return leaves[s[1]]
    if s[0] in ('var', 'const', 'ref'):
        return s
    return rebuild(s, [fill(c, leaves) for c in children(s)])


def nholes(s):
    if s[0] == 'hole':
        return s[1] + 1
    return max([0] + [nholes(c) for c in children(s)])


def F(k, U, B, leafsets):
    """all formulas with <= k operators; leafsets = list of leaf tuples (h0, h1, h2) to instantiate"""
    seen = set()
    for kk in range(k + 1):
        for s in schemas(kk, U, B):
            n = nholes(s)
            for leaves in leafsets:
                f = fill(s, leaves)
                key = (f,)
                if key in seen:
                    continue
                seen.add(key)
                yield f


def chains(d, U, atom):
    """all chains of exactly d unary operators over one atom"""
    for combo in itertools.product(U, repeat=d):
        f = atom
        for u in reversed(combo):
            f = ap1(u, f)
        yield f


def traces(n, values, nvars, minlen=1):
    """all traces of length minlen..n over values for nvars variables: tuples of sample vectors"""
    vecs = list(itertools.product(values, repeat=nvars))
    for L in range(minlen, n + 1):
        for t in itertools.product(vecs, repeat=L):
            yield t


def trace_dict(t, vs):
    return {v: [e[i] for e in t] for i, v in enumerate(vs)}


def arith_terms(d, leaves=(X, Y, C2, CH), unary=ARITH1, binary=ARITH2 + ARITHF2):
    """all arithmetic terms of depth <= d"""
    cur = list(leaves)
    allt = list(leaves)
    for _ in range(d):
        new = []
        for u in unary:
            for a in cur:
                new.append((u, a))
        for b in binary:
            for a in allt:
                for c in allt:
                    if a in cur or c in cur:
                        new.append((b, a, c))
        cur = new
        allt = allt + new
    return allt


def chunks(seq, n):
    seq = list(seq)
    k = max(1, (len(seq) + n - 1) // n)
    return [seq[i:i + k] for i in range(0, len(seq), k)]


def to_json(f):
    if isinstance(f, tuple):
        return [to_json(c) for c in f]
    return f


def from_json(j):
    if isinstance(j, list):
        return tuple(from_json(c) for c in j)
    return j


def inline(f, defs):
    """replace ('ref', name) by its definition (recursively)"""
    if f[0] == 'ref':
        return inline(defs[f[1]], defs)
    if f[0] in ('var', 'const'):
        return f
    return rebuild(f, [inline(c, defs) for c in children(f)])


def patterns():
    """common three-operator specification patterns (response, reach-and-stay, ...); beyond F(2) on purpose"""
    px, py = PX, PY
    return [
        ('always', None, ('implies', px, ('eventually', None, py))),
        ('always', None, ('implies', px, ('eventually', (0, 2), py))),
        ('eventually', None, ('and', px, ('always', None, py))),
        ('always', None, ('not', ('always', None, px))),
        ('always', (0, 2), ('implies', px, ('eventually', (1, 2), py))),
        ('always', None, ('implies', ('rise', px), ('eventually', (0, 2), py))),
        ('historically', None, ('implies', px, ('once', (0, 2), py))),
        ('once', None, ('and', px, ('historically', None, py))),
        ('historically', None, ('implies', px, ('once', None, py))),
        ('always', None, ('implies', px, ('until', (0, 2), py, X))),
        ('eventually', (0, 2), ('and', px, ('next', py))),
        ('always', None, ('or', ('not', px), ('since', None, py, px))),
        ('until', None, px, ('always', None, py)),
        ('since', None, px, ('once', None, py)),
        ('historically', (0, 2), ('or', px, ('once', (1, 2), ('and', px, py)))),
        ('always', (1, 2), ('or', ('eventually', (0, 1), px), ('always', (0, 1), py))),
    ]


LONG_NAMES = {'x': 'x_' + 'measured_signal_with_a_long_name_' * 3, 'y': 'y_' + 'another_signal_with_a_long_name_' * 3}


def rename(f, names=None):
    """the same formula over other variable names (default: identifiers of about 100 characters)"""
    names = LONG_NAMES if names is None else names
    if not isinstance(f, tuple):
        return f
    if f[0] == 'var':
        return ('var', names.get(f[1], f[1]))
    if f[0] == 'const':
        return f
    return tuple(rename(g, names) if isinstance(g, tuple) and g and isinstance(g[0], str) and not _is_interval(g) else g for g in f)


def _is_interval(g):
    return len(g) == 2 and all(isinstance(x, (int, float)) for x in g)


def sibling_formulas(dense=False):
    """three operators: a binary connective over one operand without future and one operand with a bounded future - the shape in which
    pastify() has to DELAY a past / event / plain operand (F(2) never contains it: it needs an operator on either side)"""
    px, py = PX, PY
    past = [px, ('not', px), ('once', (0, 1), px), ('once', (1, 2), px), ('historically', (1, 2), px), ('historically', (0, 2), px),
            ('once', None, px), ('historically', None, px), ('since', None, px, py), ('since', (0, 1), px, py), ('since', (1, 2), py, px)]
    if not dense:
        past += [('prev', px), ('s_prev', px), ('rise', px), ('fall', px)]
    fut = [('eventually', (0, 1), py), ('eventually', (1, 2), py), ('always', (0, 2), py), ('always', (1, 1), px)]
    if not dense:
        fut += [('next', py), ('s_next', px), ('until', (0, 1), py, px)]
    out = []
    for b in ('and', 'or', 'implies', 'iff', 'xor'):
        for p in past:
            for q in fut:
                out.append((b, p, q))
                out.append((b, q, p))
    return out


def chain_formulas(n):
    """left-deep and right-deep chains of n operands of one binary connective (grouping of long unparenthesised chains)"""
    atoms = [PX, PY, ('pred', '<=', X, C1), ('pred', '>', Y, C0), ('pred', '>=', X, C2), ('pred', '<', Y, C1)]
    out = []
    for b in ('and', 'or', 'implies', 'iff', 'xor', ('since', None), ('until', None), ('since', (0, 1)), ('until', (0, 1))):
        mk = (lambda l, r, b=b: (b, l, r)) if isinstance(b, str) else (lambda l, r, b=b: (b[0], b[1], l, r))
        left = atoms[0]
        for a in atoms[1:n]:
            left = mk(left, a)
        right = atoms[n - 1]
        for a in reversed(atoms[:n - 1]):
            right = mk(a, right)
        out += [left, right]
    return out


I_BIG = ((0, 4), (2, 5), (4, 4), (3, 7))


def deep_formulas(ops_u, ops_b=(), future=True, two_var=True):
    """larger bounds and deeper nesting than F(2): chains of 3 temporal operators and since/until with bounds up to 7
    (meant for long traces over a two-letter alphabet)"""
    px, py = PX, PY
    T = [(op, I) for op in ('once', 'historically', 'eventually', 'always') if op in ops_u and (future or op in ('once', 'historically')) for I in I_BIG]
    out = []
    for u in T:
        out.append(ap1(u, px))
        out.append(ap1(u, X))
    for i, u in enumerate(T):
        for j, v in enumerate(T):
            if (i + 2 * j) % 3 == 0:
                out.append(ap1(u, ap1(v, px)))
    for i, u in enumerate(T):
        v = T[(i * 5 + 3) % len(T)]
        w = T[(i * 7 + 1) % len(T)]
        out.append(ap1(u, ap1(v, ap1(w, X))))
        for p1 in ('prev', 'next', 'rise', 'not'):
            if p1 in ops_u:
                out.append(ap1(u, ap1((p1,), ap1(v, px))))
    if two_var:
        for I in I_BIG:
            if 'since' in ops_b:
                out += [('since', I, px, py), ('since', I, ('once', (0, 4), px), py)]
            if 'until' in ops_b and future:
                out += [('until', I, px, py), ('always', (0, 4), ('until', I, px, py))]
            if 'unless' in ops_b and future:
                out += [('unless', I, px, py)]
    seen, res = set(), []
    for f in out:
        if f not in seen:
            seen.add(f)
            res.append(f)
    return res


I_WIDE = ((0, 15), (0, 16), (3, 19), (2, 20), (16, 16))


def wide_formulas(ops_u, ops_b=(), future=True):
    """windows of 16+ samples (implementations may switch algorithm with the window size)"""
    px, py = PX, PY
    out = []
    for op in ('once', 'historically', 'eventually', 'always'):
        if op in ops_u and (future or op in ('once', 'historically')):
            for I in I_WIDE:
                out += [(op, I, X), (op, I, px)]
    for I in I_WIDE[:3]:
        if 'since' in ops_b:
            out.append(('since', I, px, py))
        if future and 'until' in ops_b:
            out.append(('until', I, px, py))
    return out


def long_traces(nvars, length, values=V3):
    """a fixed finite family of LONG traces: all periodic traces with a period word of length <= 3 (one variable) or <= 2
    (two variables), all single-spike traces (constant a with one sample b, every position) and all step traces (a up to position k,
    then b).  Enumerated completely; meant for behaviour that depends on the number of samples seen."""
    vecs = list(itertools.product(values, repeat=nvars))
    seen, out = set(), []

    def add(t):
        t = tuple(t)
        if t not in seen:
            seen.add(t)
            out.append(t)
    for plen in range(1, (3 if nvars == 1 else 2) + 1):
        for u in itertools.product(vecs, repeat=plen):
            add([u[i % plen] for i in range(length)])
    # a short transient followed by a constant tail, and a constant followed by a short final word
    if nvars == 1:
        for wl in (2, 3):
            for u in itertools.product(vecs, repeat=wl):
                for c in vecs:
                    add(list(u) + [c] * (length - wl))
                    add([c] * (length - wl) + list(u))
    pairs = [(a, b) for a in vecs for b in vecs if a != b]
    if nvars > 1:
        pairs = pairs[::5]
    for a, b in pairs:
        for k in range(length):
            add([b if i == k else a for i in range(length)])
            add([a if i < k else b for i in range(length)])
    return out
