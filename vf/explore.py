"""E2: explicit-state breadth-first exploration of a real monitor object.

One transition = one real API call on the real object.  A state is the event history reaching it; the live
object is rebuilt by replaying the history on a fresh, freshly parsed specification (rtamt objects cannot be
deep-copied).  States are merged on the product key (implementation state x reference summary); merges are
validated one step deep.  See DESIGN.md section 1.
"""
import collections
import types
import enum
from fractions import Fraction
from decimal import Decimal

DROP_DEFAULT = ('update_counter', 'previous_time')

_SKIP = (type, types.ModuleType, types.FunctionType, types.MethodType, types.BuiltinFunctionType,
         types.BuiltinMethodType)


PRUNE = '<<prune: outside the property, do not expand>>'


class Unkeyable(Exception):
    pass


def snapshot(root, drop=DROP_DEFAULT, static=None):
    """canonical dump of every object reachable from root (generic walk, no rtamt attribute names except
    the optional drop list)"""
    seen = {}

    def dropped(name):
        for d in drop:
            if name == d or name.endswith('__' + d):
                return True
        return False

    def go(o, depth):
        if depth > 200:
            raise Unkeyable('too deep')
        if o is None or isinstance(o, (bool, int, str, bytes)):
            return o
        if isinstance(o, float):
            return 'nan' if o != o else o + 0.0  # -0.0 and 0.0 are the same state
        if isinstance(o, (Fraction, Decimal, complex)):
            return str(o)
        if isinstance(o, enum.Enum):
            return ('E', type(o).__name__, o.name)
        if isinstance(o, _SKIP):
            return '<skip>'
        i = id(o)
        if i in seen:
            return ('@', seen[i])
        seen[i] = len(seen)
        if isinstance(o, (list, tuple, collections.deque)):
            return ('L',) + tuple(go(x, depth + 1) for x in o)
        if isinstance(o, (set, frozenset)):
            return ('S',) + tuple(sorted((go(x, depth + 1) for x in o), key=repr))
        if isinstance(o, dict):
            items = [(go(k, depth + 1), go(v, depth + 1)) for k, v in o.items()]
            return ('D',) + tuple(sorted(items, key=repr))
        d = getattr(o, '__dict__', None)
        if d is not None:
            return ('O', type(o).__name__) + tuple((k, go(v, depth + 1)) for k, v in sorted(d.items())
                                                   if not dropped(k))
        slots = getattr(type(o), '__slots__', None)
        if slots:
            return ('O', type(o).__name__) + tuple((k, go(getattr(o, k, None), depth + 1)) for k in slots)
        return ('?', type(o).__name__)

    return go(root, 0)


class Stats(object):
    def __init__(self):
        self.states = 0
        self.transitions = 0
        self.merges = 0
        self.merges_validated = 0
        self.maxdepth = 0
        self.fixpoint = False
        self.cap = None
        self.canon_divergence = 0
        self.executions = 0


def bfs(model, maxdepth, max_transitions, validate='first', on_violation=None, on_state=None, max_states=None):
    """model must provide:
        events                      list of hashable events
        fresh()                     new real object
        apply(obj, hist, ev)        execute one event (hist = events before it); returns the observable output
        implkey(obj)                canonical implementation state (may raise Unkeyable)
        refkey(hist)                reference summary of the history
        check(hist, out, obj)       invariant for the transition that produced `out` as last step of hist; msg | None
    Returns Stats.  on_violation(hist, msg) is called for every violating transition (those are not expanded)."""
    st = Stats()
    merging = True

    def run(hist):
        obj = model.fresh()
        out = None
        for i, e in enumerate(hist):
            out = model.apply(obj, hist[:i], e)
        st.executions += 1
        return obj, out

    def key_of(obj, hist):
        nonlocal merging
        if not merging:
            return ('H', hist)
        try:
            return (model.implkey(obj), model.refkey(hist))
        except Unkeyable:
            merging = False
            st.canon_divergence += 1
            return ('H', hist)

    obj0 = model.fresh()
    k0 = key_of(obj0, ())
    seen = {k0: ()}
    succ = {}            # key -> {event: (out, succkey)}
    validated = set()
    frontier = collections.deque([((), k0)])
    st.states = 1
    if on_state:
        on_state((), obj0)
    while frontier:
        h, hk = frontier.popleft()
        if len(h) >= maxdepth:
            st.cap = 'depth %d' % maxdepth
            continue
        if st.transitions >= max_transitions:
            st.cap = 'transitions %d' % max_transitions
            break
        table = succ.setdefault(hk, {})
        for e in (model.enabled(h) if hasattr(model, 'enabled') else model.events):
            h2 = h + (e,)
            obj, out = run(h2)
            st.transitions += 1
            msg = model.check(h2, out, obj)
            if msg is PRUNE:
                table[e] = (None, None)
                continue
            if msg is not None:
                if on_violation:
                    on_violation(h2, msg)
                table[e] = (None, None)
                continue
            k = key_of(obj, h2)
            table[e] = (None, k)
            if k not in seen:
                seen[k] = h2
                st.states += 1
                st.maxdepth = max(st.maxdepth, len(h2))
                if on_state:
                    on_state(h2, obj)   # the live object is not used by the search afterwards
                if max_states is not None and st.states >= max_states:
                    st.cap = 'states %d' % max_states
                    frontier.clear()
                    break
                frontier.append((h2, k))
            elif merging and seen[k] != h2:
                st.merges += 1
                do = validate == 'all' or (validate == 'first' and k not in validated)
                if do and len(h2) < maxdepth:
                    validated.add(k)
                    # one step from the pruned history must look exactly like one step from the representative
                    rep = seen[k]
                    for e2 in (model.enabled(h2) if hasattr(model, 'enabled') else model.events):
                        o1, out1 = run(h2 + (e2,))
                        o2, out2 = run(rep + (e2,))
                        st.transitions += 2
                        m1 = model.check(h2 + (e2,), out1, o1)
                        if m1 is PRUNE:
                            continue
                        if m1 is not None:
                            if on_violation:
                                on_violation(h2 + (e2,), m1)
                            continue
                        try:
                            same = (model.implkey(o1) == model.implkey(o2)) and snapshot(out1) == snapshot(out2) \
                                and model.refkey(h2 + (e2,)) == model.refkey(rep + (e2,))
                        except Unkeyable:
                            same = False
                        if not same:
                            # the key misses state: stop merging, keep exploring as a plain trie
                            st.canon_divergence += 1
                            merging = False
                            break
                    st.merges_validated += 1
    else:
        st.fixpoint = st.cap is None
    return st
