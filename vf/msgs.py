"""Structured sample types for the "variable with fields" presentation (rtamt: import_module + declare_var(name, <class name>) and
`m.x` / `m.inner.x` in the specification text).  No rtamt import; rtamt instantiates the class without arguments at parse() to check
that the field is a number, so every attribute has a numeric default."""


class Msg(object):
    def __init__(self, **kw):
        self.__dict__.update(kw)

    def __getattr__(self, name):        # only reached for attributes that were not set: the default-constructed instance of parse()
        if name.startswith('__'):
            raise AttributeError(name)
        return 0.0

    def __eq__(self, other):
        return type(other) is type(self) and self.__dict__ == other.__dict__

    def __hash__(self):
        return hash(tuple(sorted(self.__dict__.items())))

    def __repr__(self):
        return 'Msg(%s)' % ', '.join('%s=%r' % kv for kv in sorted(self.__dict__.items()))


class Outer(object):
    def __init__(self, **kw):
        self.inner = Msg(**kw)

    def __eq__(self, other):
        return type(other) is type(self) and self.inner == other.inner

    def __hash__(self):
        return hash(self.inner)

    def __repr__(self):
        return 'Outer(%r)' % (self.inner,)
