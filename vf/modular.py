"""Decomposition of a formula into named sub-specifications and constants (C09, C12)."""
import itertools
from . import formula as F


def positions(f, path=()):
    """paths of all proper sub-formula occurrences that can be named (operators and predicates, not bare leaves)"""
    out = []
    for i, c in enumerate(F.children(f)):
        p = path + (i,)
        if c[0] not in ('var', 'const', 'ref'):
            out.append(p)
            out.extend(positions(c, p))
    return out


def get(f, path):
    for i in path:
        f = F.children(f)[i]
    return f


def put(f, path, g):
    if not path:
        return g
    kids = list(F.children(f))
    kids[path[0]] = put(kids[path[0]], path[1:], g)
    return F.rebuild(f, kids)


def is_arith(f):
    return f[0] in F.ARITH1 + F.ARITH2 + F.ARITHF2


def decompositions(f, limit=None, arith=False):
    """yield (defs, top): defs = ordered list of (name, formula-with-refs); identical sub-formulas share one name.
    Arithmetic sub-terms are named only with arith=True (`a = abs(x); out = (a <= y) and (a >= 1)`)."""
    pos = [p for p in positions(f) if arith or not is_arith(get(f, p))]
    n = 0
    for r in range(1, len(pos) + 1):
        for sub in itertools.combinations(pos, r):
            # deepest first, so that nested definitions refer to inner names
            order = sorted(sub, key=lambda p: (-len(p), p))
            names = {}
            defs = []
            g = f
            for p in order:
                body = get(g, p)
                key = body
                if key not in names:
                    names[key] = 'p%d' % (len(names) + 1)
                    defs.append((names[key], body))
                g = put(g, p, ('ref', names[key]))
            # other occurrences of an already named formula are replaced as well (referenced twice)
            changed = True
            while changed:
                changed = False
                for q in positions(g):
                    b = get(g, q)
                    if b in names and b[0] != 'ref':
                        g = put(g, q, ('ref', names[b]))
                        changed = True
                        break
            yield defs, g
            n += 1
            if limit and n >= limit:
                return


def texts(defs, top, bound=F.default_bound):
    subs = ['%s = %s;' % (n, F.pr(b, bound)) for n, b in defs]
    return subs, 'out = ' + F.pr(top, bound)


def inline(defs, top):
    d = {n: b for n, b in defs}
    return F.inline(top, d)
