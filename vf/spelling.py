"""Spelling variants of a formula (C15): aliases, interval separators, redundant parentheses, minimal parenthesisation
according to the precedence order read from the .g4 file at run time.  No rtamt import."""
import re
from . import formula as F

ALIASES = {
    'always': ('always', 'G'), 'eventually': ('eventually', 'F'), 'until': ('until', 'U'), 'unless': ('unless', 'W'),
    'since': ('since', 'S'), 'once': ('once', 'O'), 'historically': ('historically', 'H'), 'next': ('next', 'X'),
    'prev': ('prev', 'Y'), 's_next': ('s_next', 'sX'), 's_prev': ('s_prev', 'sY'), 'not': ('not', '!'),
    'and': ('and', '&'), 'or': ('or', '|'), 'implies': ('implies', '->'), 'iff': ('iff', '<->'), 'xor': ('xor',),
}

LAB = {'neg': 'ExprNegate', '*': 'ExprMultDiv', '/': 'ExprMultDiv', '+': 'ExprAddSub', '-': 'ExprAddSub', 'pred': 'ExprPredicate',
       'not': 'ExprNot', 'always': 'ExprAlways', 'eventually': 'ExprEv', 'historically': 'ExprHist', 'once': 'ExpreOnce',
       'prev': 'ExprPrevious', 'next': 'ExprNext', 's_prev': 'ExprStrongPrevious', 's_next': 'ExprStrongNext', 'until': 'ExprUntil',
       'unless': 'ExprUnless', 'since': 'ExprSince', 'and': 'ExprAnd', 'or': 'ExprOr', 'implies': 'ExprImplies', 'iff': 'ExprIff',
       'xor': 'ExprXor'}
PREFIX = {'neg', 'not', 'always', 'eventually', 'historically', 'once', 'prev', 'next', 's_prev', 's_next'}
BIN = {'*', '/', '+', '-', 'pred', 'until', 'unless', 'since', 'and', 'or', 'implies', 'iff', 'xor'}
CALL = {'abs', 'sqrt', 'exp', 'ln', 'pow', 'log', 'rise', 'fall'}

_LEVEL = None


def levels(path=None):
    """precedence level of every alternative label = its position in the expression rule (earlier binds tighter)"""
    global _LEVEL
    if _LEVEL is None:
        import os
        path = path or os.path.join(os.environ.get('VERIF_REPO') or '/repo', 'rtamt/antlr/grammar/tl/StlParser.g4')
        g = open(path).read()
        body = g[g.index('\nexpression'):]
        _LEVEL = {a: i for i, a in enumerate(re.findall(r'#(\w+)', body))}
    return _LEVEL


def lvl(f):
    if f[0] in ('var', 'const') or f[0] in CALL:
        return -1
    return levels()[LAB[f[0]]]


def _head(f, alias, sep):
    op = f[0]
    names = ALIASES.get(op, (op,))
    w = names[alias % len(names)]
    I = F.interval(f)
    if I is not None:
        w += '[%s%s%s]' % (F.fnum(I[0]), sep, F.fnum(I[1]))
    return w


def spell(f, alias=0, sep=',', extra=0, mode='full'):
    """mode 'full': every composite operand parenthesised (+ `extra` redundant levels around every operand);
    mode 'min': minimal parentheses according to the grammar's alternative order.  alias: int, selects the alias of every
    operator occurrence (alias + position parity so that occurrences differ)"""
    counter = [alias]

    def pick():
        counter[0] += 1
        return counter[0]

    def wrap(t, n):
        return '(' * n + t + ')' * n

    def right_open_levels(c):
        if c[0] in ('var', 'const') or c[0] in CALL:
            return []
        if c[0] in PREFIX:
            k = F.children(c)[0]
            if k[0] in BIN and lvl(k) > lvl(c):
                return [lvl(c)]
            return [lvl(c)] + right_open_levels(k)
        r = F.children(c)[1]
        if r[0] in BIN and lvl(r) >= lvl(c):
            return []
        return right_open_levels(r)

    def go(g):
        op = g[0]
        if op == 'var':
            return g[1]
        if op == 'const':
            return F.fnum(g[1])
        if op in CALL:
            return '%s(%s)' % (op, ','.join(go(c) for c in F.children(g)))
        if mode == 'full':
            def P(c):
                t = go(c)
                base = 0 if (c[0] in ('var', 'const') or c[0] in CALL) else 1
                return wrap(t, base + extra)
            if op == 'neg':
                return '-%s' % P(g[1])
            if op in PREFIX:
                return '%s %s' % (_head(g, pick(), sep), P(F.children(g)[0]))
            a, b = F.children(g)
            o = g[1] if op == 'pred' else (op if op in ('*', '/', '+', '-') else _head(g, pick(), sep))
            return '%s %s %s' % (P(a), o, P(b))
        # minimal
        L = lvl(g)
        if op in PREFIX:
            k = F.children(g)[0]
            s = go(k)
            if k[0] in BIN and lvl(k) > L:
                s = '(%s)' % s
            return ('-%s' % s) if op == 'neg' else '%s %s' % (_head(g, pick(), sep), s)
        a, b = F.children(g)
        sa, sb = go(a), go(b)
        if (a[0] in BIN and lvl(a) > L) or any(p > L for p in right_open_levels(a)):
            sa = '(%s)' % sa
        if b[0] in BIN and lvl(b) >= L:
            sb = '(%s)' % sb
        o = g[1] if op == 'pred' else (op if op in ('*', '/', '+', '-') else _head(g, pick(), sep))
        return '%s %s %s' % (sa, o, sb)
    return go(f)
