"""Runner: shards -> worker pool -> aggregation -> evidence / replay files / known findings / exit status."""
import collections
import hashlib
import importlib
import json
import multiprocessing
import os
import random
import signal
import sys
import time
import contextlib

ROOT = os.path.dirname(os.path.dirname(os.path.abspath(__file__)))
NPROC = int(os.environ.get('VERIF_NPROC', '16'))
VIOL_PER_SHARD = 4
MAX_REPLAYS = 12
STOP_AFTER = int(os.environ.get('VERIF_STOP_AFTER', '60'))  # unlisted violations after which the remaining shards are abandoned (reported as a cap)
OUT = os.environ.get('VERIF_OUT') or None   # mutation campaigns only: evidence and replay files go there instead of /verif

VOLATILE = ('observed', 'expected', 'what', 'detail')


class Broken(Exception):
    """the check itself is broken (vacuity guard, harness error): never reported as a violation"""


def case_key(case):
    c = {k: v for k, v in case.items() if k not in VOLATILE}
    return 'case:' + hashlib.sha1(json.dumps(c, sort_keys=True, default=repr).encode()).hexdigest()[:16]


def load_known(path=None):
    path = path or os.path.join(ROOT, 'known_findings.txt')
    known = {}
    if not os.path.exists(path):
        return known
    for line in open(path):
        line = line.strip()
        if not line.startswith('open:'):
            continue
        parts = line.split()
        d = dict(p.split('=', 1) for p in parts[1:3] if '=' in p)
        text = ' '.join(parts[3:])
        known[(d.get('property'), d.get('key'))] = text
    return known


class Res(object):
    """what one shard reports"""

    def __init__(self, check_id):
        self.check_id = check_id
        self.evaluations = 0
        self.nontrivial = 0
        self.states = 0
        self.transitions = 0
        self.traces = 0
        self.formulas = 0
        self.nviol = 0
        self.violations = []
        self.known = collections.Counter()
        self.samples = []
        self.outcomes = collections.Counter()
        self.flags = collections.Counter()
        self.caps = []
        self._h = hashlib.sha1()

    def digest(self, *items):
        self._h.update(repr(items).encode())

    def sample(self, x, limit=2):
        if len(self.samples) < limit:
            self.samples.append(x)

    def violation(self, check, case, what):
        """record one violating case; known findings are tallied separately"""
        case = dict(case)
        case['what'] = what
        self.digest('V', case_key(case))
        keys = [case_key(case)]
        site = getattr(check, 'site', None)
        if site is not None:
            s = site(case)
            if s:
                keys.append('site:' + s)
        for k in keys:
            if (self.check_id, k) in _KNOWN:
                self.known[k] += 1
                return False
        self.nviol += 1
        if len(self.violations) < VIOL_PER_SHARD:
            self.violations.append(case)
        return True

    def pack(self):
        d = dict(self.__dict__)
        d['digest'] = self._h.hexdigest()
        del d['_h']
        return d


_KNOWN = {}


@contextlib.contextmanager
def time_limit(seconds):
    def handler(signum, frame):
        raise TimeoutError('time limit %ss' % seconds)
    old = signal.signal(signal.SIGALRM, handler)
    signal.setitimer(signal.ITIMER_REAL, seconds)
    try:
        yield
    finally:
        signal.setitimer(signal.ITIMER_REAL, 0)
        signal.signal(signal.SIGALRM, old)


def _raised_in_library(tb):
    try:
        from . import impl
        root = os.path.realpath(impl.REPO) + os.sep
    except Exception:
        return False
    return bool(tb) and os.path.realpath(tb[-1].filename).startswith(root)


def get_check(check_id):
    return importlib.import_module('vf.checks.%s' % check_id.lower())


def _worker(args):
    check_id, idx, shard, tier = args
    check = get_check(check_id)
    res = Res(check_id)
    t_start = time.time()
    try:
        check.run_shard(shard, tier, res)
    except Exception as e:
        import traceback
        tb = traceback.extract_tb(sys.exc_info()[2])
        if _raised_in_library(tb):
            # an exception that escapes from rtamt's own code through a call the check makes on every explored input without guarding it
            # (constructing, parsing, pastifying a well-formed specification): on the unchanged tree this never happens, so it is the
            # library that broke, not the harness
            res.violation(check, {'crashed_shard': shard, 'tier': tier},
                          'rtamt raised %s: %s in %s line %d during a call that the check performs on every explored input'
                          % (type(e).__name__, str(e)[:120], tb[-1].filename, tb[-1].lineno))
        else:   # harness error: report as broken, never as violation
            res.flags['harness_error'] += 1
            res.caps.append('harness error in shard %d: %s' % (idx, traceback.format_exc()[-1500:]))
    d = res.pack()
    d['idx'] = idx
    d['wall'] = round(time.time() - t_start, 2)
    d['shard'] = repr(shard)[:160]
    return d


def _init_worker():
    signal.signal(signal.SIGINT, signal.SIG_IGN)
    # a monitored call that tries to allocate gigabytes (e.g. a bound mis-scaled by 10^9) must fail with MemoryError in the
    # worker - and be judged like any other exception - instead of getting the worker killed and the pool stuck
    try:
        import resource
        lim = int(os.environ.get('VERIF_WORKER_MEM_GB', '5')) * 2 ** 30
        resource.setrlimit(resource.RLIMIT_AS, (lim, lim))
    except Exception:
        pass


def run(check_id, tier, seed):
    global _KNOWN
    t0 = time.time()
    check = get_check(check_id)
    _KNOWN = load_known()
    shards = list(check.shards(tier))
    order = list(range(len(shards)))
    random.Random(seed).shuffle(order)  # the seed only permutes the hand-out order of a fixed enumeration
    tasks = [(check_id, i, shards[i], tier) for i in order]
    every = int(os.environ.get('VERIF_SHARD_EVERY', '1') or 1)
    if every > 1:
        # timing estimates only (tools_estimate.py): a fixed 1/every part of the shards; the run is reported as broken on purpose
        tasks = [t for t in tasks if t[1] % every == 0]

    agg = dict(evaluations=0, nontrivial=0, states=0, transitions=0, traces=0, formulas=0, nviol=0)
    violations = []
    known = collections.Counter()
    outcomes = collections.Counter()
    flags = collections.Counter()
    caps = []
    samples = {}
    digests = {}
    slow = []
    stopped = False

    nproc = min(NPROC, max(1, len(tasks)))
    ctx = multiprocessing.get_context('fork')
    pool = ctx.Pool(nproc, initializer=_init_worker)
    try:
        it = pool.imap_unordered(_worker, tasks)
        stall = int(os.environ.get('VERIF_STALL_S', '1500'))
        while True:
            try:
                d = it.next(timeout=stall)
            except StopIteration:
                break
            except multiprocessing.TimeoutError:
                # a worker was lost (killed) or a shard hangs: never wait for ever
                caps.append('harness error: no shard finished within %d s (%d of %d done) - a worker died or hangs' % (stall, len(digests), len(tasks)))
                flags['harness_error'] += 1
                break
            for k in agg:
                agg[k] += d[k]
            violations.extend((d['idx'], c) for c in d['violations'])
            known.update(d['known'])
            outcomes.update(d['outcomes'])
            flags.update(d['flags'])
            caps.extend(d['caps'])
            if d['samples']:
                samples[d['idx']] = d['samples']
            digests[d['idx']] = d['digest']
            slow.append((d['wall'], d['idx'], d['shard']))
            if agg['nviol'] >= STOP_AFTER:
                stopped = True
                break
    finally:
        pool.terminate()
        pool.join()
    if stopped:
        caps.append('stopped after %d unlisted violations; %d of %d shards completed'
                    % (agg['nviol'], len(digests), len(tasks)))

    broken = []
    if every > 1:
        broken.append('estimation mode: only %d of %d shards were run (VERIF_SHARD_EVERY=%d)' % (len(tasks), len(shards), every))
    if flags.get('harness_error'):
        broken.append('harness error: ' + '; '.join(c for c in caps if c.startswith('harness error'))[:3000])
    extra = {}
    fin = getattr(check, 'finalize', None)
    if fin is not None and not stopped and not agg['nviol']:
        try:
            extra = fin(agg, outcomes, flags, tier) or {}
        except Broken as e:
            broken.append(str(e))

    # ---- report violations
    violations.sort(key=lambda ic: (ic[0], json.dumps(ic[1], sort_keys=True, default=repr)))
    rdir = os.path.join(OUT or ROOT, 'replays', check_id)
    if os.path.isdir(rdir):
        for fn in os.listdir(rdir):
            if fn.endswith('.json'):
                os.remove(os.path.join(rdir, fn))
    lines = []
    seen = set()
    for idx, case in violations:
        k = case_key(case)
        if k in seen:
            continue
        seen.add(k)
        if len(seen) > MAX_REPLAYS:
            break
        os.makedirs(rdir, exist_ok=True)
        path = os.path.join(rdir, k.replace(':', '_') + '.json')
        with open(path, 'w') as fh:
            json.dump({'property': check_id, 'key': k, 'case': case}, fh, indent=1, sort_keys=True, default=repr)
        lines.append('VIOLATION property=%s replay=%s' % (check_id, path))
        lines.append('  # ' + str(case.get('what'))[:300])
    for k, n in sorted(known.items()):
        print('KNOWN-FINDING: property=%s %s (%s; %d cases in this run)' % (check_id, _KNOWN[(check_id, k)], k, n))
    for ln in lines:
        print(ln)

    # ---- evidence
    wall = time.time() - t0
    level = check.LEVEL
    flat_samples = []
    for i in sorted(samples):
        for s in samples[i]:
            if len(flat_samples) < 6:
                flat_samples.append(s)
    cov = {
        'evaluations': agg['evaluations'],
        'distinct_nontrivial': agg['nontrivial'],
        'rule': check.RULE,
        'samples': flat_samples,
        'formulas': agg['formulas'],
        'shards': len(tasks),
        'shards_completed': len(digests),
        'distinct_outcomes': len(outcomes),
        'outcomes': {str(k): v for k, v in sorted(outcomes.items(), key=lambda kv: -kv[1])[:12]},
        'flags': dict(flags),
        'caps_hit': caps[:20],
        # exhaustive = the stated finite space was enumerated completely; state-graph searches that stopped at their depth /
        # transition cap ('no_fixpoint') are exhaustive only up to that cap and are therefore not reported as exhaustive
        'exhaustive': (not caps) and not stopped and not flags.get('no_fixpoint'),
        'searches_closed': flags.get('fixpoint', 0),
        'searches_capped': flags.get('no_fixpoint', 0),
        'known_finding_cases': dict(known),
        'result_digest': hashlib.sha1(repr(sorted(digests.items())).encode()).hexdigest(),
        'slowest_shards': [{'wall_s': w, 'shard': sh} for w, i, sh in sorted(slow, reverse=True)[:5]],
        'shard_cpu_s': round(sum(w for w, _, _ in slow), 1),
    }
    if level == 'model_checking':
        cov['states'] = agg['states']
        cov['transitions'] = agg['transitions']
        cov['traces_validated_against_impl'] = agg['traces']
    cov.update(extra)
    ev = {
        'property_id': check_id, 'tier': tier, 'seed': seed, 'level': level, 'coverage': cov,
        'assumptions': list(getattr(check, 'ASSUMPTIONS', [])), 'wall_s': round(wall, 2),
        'violations': agg['nviol'],
    }
    os.makedirs(os.path.join(OUT or ROOT, 'evidence'), exist_ok=True)
    with open(os.path.join(OUT or ROOT, 'evidence', check_id + '.json'), 'w') as fh:
        json.dump(ev, fh, indent=1, sort_keys=True, default=repr)

    summary = ('%s tier=%s seed=%d shards=%d evaluations=%d nontrivial=%d states=%d transitions=%d '
               'violations=%d known_cases=%d outcomes=%d wall=%.1fs'
               % (check_id, tier, seed, len(tasks), agg['evaluations'], agg['nontrivial'], agg['states'],
                  agg['transitions'], agg['nviol'], sum(known.values()), len(outcomes), wall))
    print(summary)
    if caps:
        print('caps: ' + ' | '.join(c[:200] for c in caps[:5]))
    if agg['nviol']:
        return 1
    if broken:
        print('BROKEN %s: %s' % (check_id, ' ; '.join(broken)))
        return 2
    return 0


def replay(path):
    d = json.load(open(path))
    check = get_check(d['property'])
    if 'crashed_shard' in d['case']:
        res = Res(d['property'])
        try:
            check.run_shard(d['case']['crashed_shard'], d['case'].get('tier', 'quick'), res)
            msgs = []
        except Exception as e:
            msgs = ['rtamt raised %s: %s' % (type(e).__name__, str(e)[:200])]
    else:
        msgs = check.replay(d['case'])
    if msgs:
        for m in msgs:
            print('VIOLATION property=%s replay=%s' % (d['property'], path))
            print('  # ' + str(m)[:500])
        return 1
    print('replay of %s: no violation' % path)
    return 0
