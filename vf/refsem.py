"""Reference semantics for discrete time: the README's inductive definition evaluated literally.

Deliberately quadratic and boring; no rtamt import.  See DESIGN.md section 3.
"""
import math
from .formula import UN_T, children, is_formula

INF = float('inf')

_AR = {'+': lambda a, b: a + b, '-': lambda a, b: a - b, '*': lambda a, b: a * b, '/': lambda a, b: a / b}


class DomainError(Exception):
    """math domain error in the reference: the case is outside every property"""


def _m(fn, *a):
    try:
        return fn(*a)
    except (ValueError, ZeroDivisionError, OverflowError):
        raise DomainError()


def ev(f, w, n, hook=None):
    """robustness list rho(f, w, t) for t in 0..n-1.  hook(pred, lhs, rhs, default) may override a predicate."""
    op = f[0]
    R = range(n)
    E = lambda g: ev(g, w, n, hook)
    if op == 'var':
        return list(w[f[1]])
    if op == 'const':
        return [f[1]] * n
    if op == 'pred':
        l = E(f[2]); r = E(f[3]); c = f[1]
        if c in ('>=', '>'):
            out = [a - b for a, b in zip(l, r)]
        elif c in ('<=', '<'):
            out = [b - a for a, b in zip(l, r)]
        elif c == '==':
            out = [-abs(a - b) for a, b in zip(l, r)]
        elif c == '!==':
            out = [abs(a - b) for a, b in zip(l, r)]
        else:
            raise ValueError(c)
        if hook is not None:
            return hook(f, l, r, out)
        return out
    if op in _AR:
        l = E(f[1]); r = E(f[2])
        return [_m(_AR[op], a, b) for a, b in zip(l, r)]
    if op == 'neg':
        return [-a for a in E(f[1])]
    if op == 'abs':
        return [abs(a) for a in E(f[1])]
    if op == 'sqrt':
        return [_m(math.sqrt, a) for a in E(f[1])]
    if op == 'exp':
        return [_m(math.exp, a) for a in E(f[1])]
    if op == 'ln':
        return [_m(math.log, a) for a in E(f[1])]
    if op == 'pow':
        return [_m(math.pow, a, b) for a, b in zip(E(f[1]), E(f[2]))]
    if op == 'log':
        return [_m(math.log, a, b) for a, b in zip(E(f[1]), E(f[2]))]
    if op == 'not':
        return [-a for a in E(f[1])]
    if op == 'and':
        return [min(a, b) for a, b in zip(E(f[1]), E(f[2]))]
    if op == 'or':
        return [max(a, b) for a, b in zip(E(f[1]), E(f[2]))]
    if op == 'implies':
        return [max(-a, b) for a, b in zip(E(f[1]), E(f[2]))]
    if op == 'iff':
        return [-abs(a - b) for a, b in zip(E(f[1]), E(f[2]))]
    if op == 'xor':
        return [abs(a - b) for a, b in zip(E(f[1]), E(f[2]))]
    if op == 'rise':
        c = E(f[1])
        return [c[t] if t == 0 else min(-c[t - 1], c[t]) for t in R]
    if op == 'fall':
        c = E(f[1])
        return [-c[t] if t == 0 else min(c[t - 1], -c[t]) for t in R]
    if op == 'prev':
        c = E(f[1]); return [INF if t == 0 else c[t - 1] for t in R]
    if op == 's_prev':
        c = E(f[1]); return [-INF if t == 0 else c[t - 1] for t in R]
    if op == 'next':
        c = E(f[1]); return [INF if t == n - 1 else c[t + 1] for t in R]
    if op == 's_next':
        c = E(f[1]); return [-INF if t == n - 1 else c[t + 1] for t in R]
    if op in UN_T:
        c = E(f[2])
        past = op in ('once', 'historically')
        agg = max if op in ('once', 'eventually') else min
        e = -INF if agg is max else INF
        out = []
        for t in R:
            if f[1] is None:
                lo, hi = (0, t) if past else (t, n - 1)
            else:
                a, b = f[1]
                lo, hi = (max(0, t - b), t - a) if past else (t + a, min(n - 1, t + b))
            out.append(agg(c[lo:hi + 1]) if lo <= hi and hi >= 0 and lo <= n - 1 else e)
        return out
    if op == 'since':
        p = E(f[2]); q = E(f[3]); out = []
        for t in R:
            lo, hi = (0, t) if f[1] is None else (max(0, t - f[1][1]), t - f[1][0])
            best = -INF
            for j in range(lo, hi + 1):
                best = max(best, min([q[j]] + p[j + 1:t + 1]))
            out.append(best)
        return out
    if op == 'until':
        p = E(f[2]); q = E(f[3]); out = []
        for t in R:
            lo, hi = (t, n - 1) if f[1] is None else (t + f[1][0], min(n - 1, t + f[1][1]))
            best = -INF
            for j in range(lo, hi + 1):
                best = max(best, min([q[j]] + p[t:j]))
            out.append(best)
        return out
    if op == 'unless':
        if f[1] is None:
            return E(('or', ('always', None, f[2]), ('until', None, f[2], f[3])))
        a, b = f[1]
        return E(('or', ('always', (0, b), f[2]), ('until', (a, b), f[2], f[3])))
    raise ValueError(op)


# ---------------------------------------------------------------------------------------------------
# Boolean satisfaction, written independently of ev (classical two-valued STL on finite traces with the
# same boundary conventions: weak prev/next true at the boundary, strong false, empty windows: once/eventually
# false, historically/always true)

def _num(f, w, n):
    """numeric value list of an arithmetic term"""
    return ev(f, w, n)


def sat(f, w, n):
    op = f[0]
    R = range(n)
    S = lambda g: sat(g, w, n)
    if op == 'pred':
        l = _num(f[2], w, n); r = _num(f[3], w, n); c = f[1]
        # verdict of a comparison; returns True/False, or None when the robustness is 0 (boundary: the
        # statement only speaks about strictly positive / negative values)
        if c == '>=': return [a >= b for a, b in zip(l, r)]
        if c == '>': return [a > b for a, b in zip(l, r)]
        if c == '<=': return [a <= b for a, b in zip(l, r)]
        if c == '<': return [a < b for a, b in zip(l, r)]
        if c == '==': return [a == b for a, b in zip(l, r)]
        if c == '!==': return [a != b for a, b in zip(l, r)]
        raise ValueError(c)
    if op == 'var':
        # a bare variable used as a formula: satisfied iff non-negative (value > 0 sat, < 0 unsat)
        return [a >= 0 for a in w[f[1]]]
    if op == 'not': return [not a for a in S(f[1])]
    if op == 'and': return [a and b for a, b in zip(S(f[1]), S(f[2]))]
    if op == 'or': return [a or b for a, b in zip(S(f[1]), S(f[2]))]
    if op == 'implies': return [(not a) or b for a, b in zip(S(f[1]), S(f[2]))]
    if op == 'prev': c = S(f[1]); return [True if t == 0 else c[t - 1] for t in R]
    if op == 's_prev': c = S(f[1]); return [False if t == 0 else c[t - 1] for t in R]
    if op == 'next': c = S(f[1]); return [True if t == n - 1 else c[t + 1] for t in R]
    if op == 's_next': c = S(f[1]); return [False if t == n - 1 else c[t + 1] for t in R]
    if op == 'rise': c = S(f[1]); return [c[t] if t == 0 else (not c[t - 1]) and c[t] for t in R]
    if op == 'fall': c = S(f[1]); return [(not c[t]) if t == 0 else c[t - 1] and not c[t] for t in R]
    if op in UN_T:
        c = S(f[2]); past = op in ('once', 'historically'); ex = op in ('once', 'eventually')
        out = []
        for t in R:
            if f[1] is None:
                idx = range(0, t + 1) if past else range(t, n)
            else:
                a, b = f[1]
                idx = range(max(0, t - b), t - a + 1) if past else range(t + a, min(n - 1, t + b) + 1)
            vals = [c[j] for j in idx if 0 <= j < n]
            out.append(any(vals) if ex else all(vals))
        return out
    if op == 'since':
        p = S(f[2]); q = S(f[3]); out = []
        for t in R:
            idx = range(0, t + 1) if f[1] is None else range(max(0, t - f[1][1]), t - f[1][0] + 1)
            out.append(any(q[j] and all(p[j + 1:t + 1]) for j in idx if 0 <= j < n))
        return out
    if op == 'until':
        p = S(f[2]); q = S(f[3]); out = []
        for t in R:
            idx = range(t, n) if f[1] is None else range(t + f[1][0], min(n - 1, t + f[1][1]) + 1)
            out.append(any(q[j] and all(p[t:j]) for j in idx if 0 <= j < n))
        return out
    if op == 'unless':
        I = f[1]
        al = ('always', None if I is None else (0, I[1]), f[2])
        return [a or b for a, b in zip(S(al), S(('until', I, f[2], f[3])))]
    raise ValueError(op)


def horizon(f):
    """largest total of upper bounds along a chain of nested future operators, next = 1 (statement of C03)"""
    op = f[0]
    if op in ('var', 'const', 'ref'):
        return 0
    if op in ('next', 's_next'):
        return 1 + horizon(f[1])
    if op in ('eventually', 'always'):
        if f[1] is None:
            return INF
        return f[1][1] + horizon(f[2])
    if op in ('until', 'unless'):
        if f[1] is None:
            return INF
        return f[1][1] + max(horizon(f[2]), horizon(f[3]))
    ks = children(f)
    return max([horizon(c) for c in ks] or [0])


def same(a, b):
    if a is None or b is None:
        return a is b
    if a == b:
        return True
    try:
        if math.isnan(a) and math.isnan(b):
            return True
        return math.isclose(a, b, rel_tol=1e-9, abs_tol=1e-12)
    except Exception:
        return False


def same_list(a, b):
    return len(a) == len(b) and all(same(x, y) for x, y in zip(a, b))


def top_matters(f, w, n, out=None):
    """non-triviality rule: the reference output is not constant +-inf and differs from the output of each
    direct operand, i.e. the top operator mattered on this input"""
    out = ev(f, w, n) if out is None else out
    if all(math.isinf(v) for v in out):
        return False
    for c in children(f):
        try:
            if same_list(ev(c, w, n), out):
                return False
        except Exception:
            pass
    return True
