"""Dense-time reference semantics on a grid (DESIGN.md section 3).

Signals are right-continuous step functions on [t0, inf) with the last value held; past operators look back to
t0; intervals are closed; since/until are non-strict.  When all break-points and bounds lie on a grid delta,
every sub-formula is constant on the cells [t0+k*delta, t0+(k+1)*delta), so the reference is an exact cell
computation.  It is evaluated at delta and delta/2 and the two must agree (self-check of the reduction).
No rtamt import.
"""
import math
from fractions import Fraction
from .formula import UN_T, children, subforms, interval
from .refsem import DomainError, _m, _AR

INF = float('inf')


class RefError(Exception):
    """the reference disagrees with itself: harness problem, never a finding"""


def stepval(samples, t):
    v = None
    for s in samples:
        if s[0] <= t:
            v = s[1]
        else:
            break
    return v


def _cells(f, w, N, scale, hook=None):
    """list of N cell values; scale = cells per time unit"""
    op = f[0]
    E = lambda g: _cells(g, w, N, scale, hook)
    R = range(N)

    def ib(I):
        a = Fraction(I[0]) * scale
        b = Fraction(I[1]) * scale
        if a.denominator != 1 or b.denominator != 1:
            raise RefError('bound %r not on the grid' % (I,))
        return int(a), int(b)
    if op == 'var':
        return list(w[f[1]])
    if op == 'const':
        return [f[1]] * N
    if op == 'pred':
        l = E(f[2]); r = E(f[3]); c = f[1]
        if c in ('>=', '>'):
            out = [a - b for a, b in zip(l, r)]
        elif c in ('<=', '<'):
            out = [b - a for a, b in zip(l, r)]
        elif c == '==':
            out = [-abs(a - b) for a, b in zip(l, r)]
        else:
            out = [abs(a - b) for a, b in zip(l, r)]
        if hook is not None:
            return hook(f, l, r, out)
        return out
    if op in _AR:
        return [_m(_AR[op], a, b) for a, b in zip(E(f[1]), E(f[2]))]
    if op == 'neg':
        return [-a for a in E(f[1])]
    if op == 'abs':
        return [abs(a) for a in E(f[1])]
    if op == 'sqrt':
        return [_m(math.sqrt, a) for a in E(f[1])]
    if op == 'exp':
        return [_m(math.exp, a) for a in E(f[1])]
    if op == 'ln':
        return [_m(math.log, a) for a in E(f[1])]
    if op == 'pow':
        return [_m(math.pow, a, b) for a, b in zip(E(f[1]), E(f[2]))]
    if op == 'log':
        return [_m(math.log, a, b) for a, b in zip(E(f[1]), E(f[2]))]
    if op == 'not':
        return [-a for a in E(f[1])]
    if op == 'and':
        return [min(a, b) for a, b in zip(E(f[1]), E(f[2]))]
    if op == 'or':
        return [max(a, b) for a, b in zip(E(f[1]), E(f[2]))]
    if op == 'implies':
        return [max(-a, b) for a, b in zip(E(f[1]), E(f[2]))]
    if op == 'iff':
        return [-abs(a - b) for a, b in zip(E(f[1]), E(f[2]))]
    if op == 'xor':
        return [abs(a - b) for a, b in zip(E(f[1]), E(f[2]))]
    if op in ('once', 'historically'):
        c = E(f[2]); agg = max if op == 'once' else min; e = -INF if op == 'once' else INF
        out = []
        for k in R:
            if f[1] is None:
                lo, hi = 0, k
            else:
                a, b = ib(f[1])
                lo, hi = max(0, k - b), k - a
            out.append(agg(c[lo:hi + 1]) if hi >= lo and hi >= 0 else e)
        return out
    if op in ('eventually', 'always'):
        c = E(f[2]); agg = max if op == 'eventually' else min
        out = []
        for k in R:
            if f[1] is None:
                lo, hi = k, N - 1
            else:
                a, b = ib(f[1])
                lo, hi = min(k + a, N - 1), min(k + b, N - 1)
            out.append(agg(c[lo:hi + 1]))
        return out
    if op == 'since':
        p = E(f[2]); q = E(f[3]); out = []
        for k in R:
            if f[1] is None:
                lo, hi = 0, k
            else:
                a, b = ib(f[1])
                lo, hi = max(0, k - b), k - a
            best = -INF
            for j in range(lo, hi + 1):
                best = max(best, min(q[j], min(p[j:k + 1])))
            out.append(best)
        return out
    if op == 'until':
        p = E(f[2]); q = E(f[3]); out = []
        for k in R:
            if f[1] is None:
                lo, hi = k, N - 1
            else:
                a, b = ib(f[1])
                lo, hi = min(k + a, N - 1), min(k + b, N - 1)
            best = -INF
            for j in range(lo, hi + 1):
                best = max(best, min(q[j], min(p[k:j + 1])))
            out.append(best)
        return out
    if op == 'unless':
        I = f[1]
        return E(('or', ('always', None if I is None else (0, I[1]), f[2]), ('until', I, f[2], f[3])))
    raise ValueError('operator %s has no dense-time semantics' % op)


def total_bounds(f):
    s = 0
    for g in subforms(f):
        I = interval(g)
        if I is not None:
            s += I[1]
    return s


def evaluate(f, signals, times, delta=Fraction(1, 2), hook=None, selfcheck=True):
    """reference values at the given times (each >= t0).  signals: {var: [(t, v), ...]} all starting at the same t0,
    break-points and bounds on the grid delta."""
    t0 = min(s[0][0] for s in signals.values()) if signals else 0
    tend = max(s[-1][0] for s in signals.values()) if signals else 0
    res = []
    for d in ((Fraction(delta), Fraction(delta) / 2) if selfcheck else (Fraction(delta),)):
        scale = 1 / d
        # beyond tend every input is held; a sub-formula becomes constant at most sum(past bounds) later, and the
        # future operators clamp their windows to the last cell, which lies in that constant region
        span = Fraction(tend - t0) + Fraction(total_bounds(f)) + 1
        N = int(span * scale) + 2
        w = {v: [stepval(s, t0 + float(k * d)) for k in range(N)] for v, s in signals.items()}
        cells = _cells(f, w, N, scale, hook)
        vals = []
        for t in times:
            k = int(math.floor(Fraction(t - t0) * scale))
            vals.append(cells[k])
        res.append(vals)
    if not selfcheck:
        return res[0]
    a, b = res
    for x, y, t in zip(a, b, times):
        if not (x == y or (x != x and y != y) or math.isclose(x, y, rel_tol=1e-9, abs_tol=1e-12)):
            raise RefError('grid reduction disagrees at t=%r: %r vs %r' % (t, x, y))
    return a


def query_times(t0, tend, delta=0.25):
    n = int(round((tend - t0) / delta))
    return [t0 + k * delta for k in range(n + 1)]


def signals_L(L, values, t0=0.0, max_interior=None, step=0.5):
    """all step signals on [t0, t0+L] with samples at t0, at t0+L and at any subset of the interior half-grid"""
    import itertools
    n_int = int(round(L / step)) - 1
    interior = [t0 + step * (i + 1) for i in range(n_int)]
    out = []
    for r in range(0, n_int + 1):
        if max_interior is not None and r > max_interior:
            break
        for sub in itertools.combinations(interior, r):
            ts = [t0] + list(sub) + [t0 + L]
            for vals in itertools.product(values, repeat=len(ts)):
                out.append(tuple(zip(ts, vals)))
    return out


def _bcells(f, w, N, scale):
    """Boolean dense-time satisfaction per cell, written independently of _cells (closed intervals, non-strict since/until)"""
    op = f[0]
    S = lambda g: _bcells(g, w, N, scale)
    R = range(N)

    def ib(I):
        return int(Fraction(I[0]) * scale), int(Fraction(I[1]) * scale)
    if op == 'pred':
        l = _cells(f[2], w, N, scale); r = _cells(f[3], w, N, scale); c = f[1]
        cmpf = {'>=': lambda a, b: a >= b, '>': lambda a, b: a > b, '<=': lambda a, b: a <= b, '<': lambda a, b: a < b,
                '==': lambda a, b: a == b, '!==': lambda a, b: a != b}[c]
        return [cmpf(a, b) for a, b in zip(l, r)]
    if op == 'var':
        return [a >= 0 for a in w[f[1]]]
    if op == 'not':
        return [not a for a in S(f[1])]
    if op == 'and':
        return [a and b for a, b in zip(S(f[1]), S(f[2]))]
    if op == 'or':
        return [a or b for a, b in zip(S(f[1]), S(f[2]))]
    if op == 'implies':
        return [(not a) or b for a, b in zip(S(f[1]), S(f[2]))]
    if op in ('once', 'historically', 'eventually', 'always'):
        c = S(f[2]); ex = op in ('once', 'eventually'); past = op in ('once', 'historically')
        out = []
        for k in R:
            if f[1] is None:
                idx = range(0, k + 1) if past else range(k, N)
            else:
                a, b = ib(f[1])
                idx = range(max(0, k - b), k - a + 1) if past else range(min(k + a, N - 1), min(k + b, N - 1) + 1)
            vals = [c[j] for j in idx]
            out.append(any(vals) if ex else all(vals))
        return out
    if op == 'since':
        p = S(f[2]); q = S(f[3]); out = []
        for k in R:
            idx = range(0, k + 1) if f[1] is None else range(max(0, k - ib(f[1])[1]), k - ib(f[1])[0] + 1)
            out.append(any(q[j] and all(p[j:k + 1]) for j in idx))
        return out
    if op == 'until':
        p = S(f[2]); q = S(f[3]); out = []
        for k in R:
            idx = range(k, N) if f[1] is None else range(min(k + ib(f[1])[0], N - 1), min(k + ib(f[1])[1], N - 1) + 1)
            out.append(any(q[j] and all(p[k:j + 1]) for j in idx))
        return out
    if op == 'unless':
        I = f[1]
        al = ('always', None if I is None else (0, I[1]), f[2])
        return [a or b for a, b in zip(S(al), S(('until', I, f[2], f[3])))]
    raise ValueError(op)


def sat_at(f, signals, times, delta=Fraction(1, 2)):
    t0 = min(s[0][0] for s in signals.values())
    tend = max(s[-1][0] for s in signals.values())
    d = Fraction(delta)
    scale = 1 / d
    span = Fraction(tend - t0) + Fraction(total_bounds(f)) + 1
    N = int(span * scale) + 2
    w = {v: [stepval(s, t0 + float(k * d)) for k in range(N)] for v, s in signals.items()}
    cells = _bcells(f, w, N, scale)
    return [cells[int(math.floor(Fraction(t - t0) * scale))] for t in times]


# ---------------------------------------------------------------------------------------------------
# "shifted-start" variant: what the UNREPAIRED dense-time online monitor computes for a data set that starts at t0 > 0
# (open finding site:C05-nonzero-start-bounded): a bounded past operator with begin a > 0 emits no neutral prefix, so its
# output only starts at start(operand) + a, and every operator above it looks back only to the start of its operand's output.
# Used to tell this documented defect apart from any other deviation.  None = undefined (before the start of the node).

def _shift_rewrite(f):
    from .formula import children, rebuild
    op = f[0]
    if op in ('var', 'const'):
        return f
    kids = [_shift_rewrite(c) for c in children(f)]
    g = rebuild(f, kids)
    if op == 'since' and f[1] is not None:
        a, b = f[1]
        return ('and', ('once', (a, b), kids[1]), ('historically', (0, a), ('since', None, kids[0], kids[1])))
    return g


def _scells(f, w, N, scale):
    """(cells, start): cells[k] valid for k >= start"""
    op = f[0]

    def ib(I):
        return int(Fraction(I[0]) * scale), int(Fraction(I[1]) * scale)
    if op == 'var':
        return list(w[f[1]]), 0
    if op == 'const':
        return [f[1]] * N, 0
    if op in ('once', 'historically'):
        c, s = _scells(f[2], w, N, scale)
        agg = max if op == 'once' else min
        if f[1] is None:
            out = [None] * N
            acc = None
            for k in range(s, N):
                acc = c[k] if acc is None else agg(acc, c[k])
                out[k] = acc
            return out, s
        a, b = ib(f[1])
        st = s + a
        out = [None] * N
        for k in range(st, N):
            lo, hi = max(s, k - b), k - a
            out[k] = agg(c[lo:hi + 1])
        return out, st
    if op == 'since' and f[1] is None:
        p, sp = _scells(f[2], w, N, scale)
        q, sq = _scells(f[3], w, N, scale)
        st = max(sp, sq)
        out = [None] * N
        for k in range(st, N):
            best = -INF
            for j in range(st, k + 1):
                best = max(best, min(q[j], min(p[j:k + 1])))
            out[k] = best
        return out, st
    kids = [_scells(c, w, N, scale) for c in children(f)]
    st = max([s for _, s in kids] or [0])
    out = [None] * N
    sub = f[:1] + tuple(('var', '_%d' % i) for i in range(len(kids))) if op not in ('pred',) else ('pred', f[1], ('var', '_0'), ('var', '_1'))
    if op in UN_T or op in ('since', 'until', 'unless', 'eventually', 'always'):
        raise ValueError('no shifted-start semantics for %s' % op)
    ww = {'_%d' % i: [0 if v is None else v for v in c] for i, (c, _) in enumerate(kids)}
    vals = _cells(sub, ww, N, scale)
    for k in range(st, N):
        out[k] = vals[k]
    return out, st


def evaluate_shifted(f, signals, times, delta=Fraction(1, 4)):
    """values of the shifted-start variant at the given times (None where undefined); raises ValueError when the formula
    is outside the fragment the variant describes"""
    g = _shift_rewrite(f)
    t0 = min(s[0][0] for s in signals.values())
    tend = max(s[-1][0] for s in signals.values())
    d = Fraction(delta)
    scale = 1 / d
    span = Fraction(tend - t0) + Fraction(total_bounds(g)) + 1
    N = int(span * scale) + 2
    w = {v: [stepval(s, t0 + float(k * d)) for k in range(N)] for v, s in signals.items()}
    cells, st = _scells(g, w, N, scale)
    out = []
    for t in times:
        k = int(math.floor(Fraction(t - t0) * scale))
        out.append(cells[k] if k >= st else None)
    return out


# ---------------------------------------------------------------------------------------------------
# variant for the dense-time OFFLINE monitor on data sets that start at t0 > 0 (open finding site:C04-nonzero-start-bounded):
# bounded operators hard-code 0 as the start of the signal.  A bounded past operator with begin > 0 prepends a neutral prefix
# from time 0 (its output starts at 0), a bounded future operator produces output from max(0, start - end) on, and every
# operator above reads those outputs from *their* start, not from t0.  Cells are counted from time 0 here.

def _off_rewrite(f):
    from .formula import children, rebuild
    op = f[0]
    if op in ('var', 'const'):
        return f
    kids = [_off_rewrite(c) for c in children(f)]
    if op == 'unless':
        I = f[1]
        return _off_rewrite(('or', ('always', None if I is None else (0, I[1]), kids[0]), ('until', I, kids[0], kids[1])))
    if op == 'since' and f[1] is not None:
        a, b = f[1]
        if a > 0:
            return ('and', ('once', (a, b), kids[1]), ('historically', (0, a), ('since', None, kids[0], kids[1])))
        return ('and', ('once', (a, b), kids[1]), ('since', None, kids[0], kids[1]))
    if op == 'until' and f[1] is not None:
        a, b = f[1]
        if a > 0:
            return ('and', ('eventually', (a, b), kids[1]), ('always', (0, a), ('until', None, kids[0], kids[1])))
        return ('and', ('eventually', (a, b), kids[1]), ('until', None, kids[0], kids[1]))
    return rebuild(f, kids)


def _ocells(f, w, N, scale, K0):
    """(cells, start) with cells indexed from time 0; w[var][k] is None for k < K0"""
    op = f[0]

    def ib(I):
        return int(Fraction(I[0]) * scale), int(Fraction(I[1]) * scale)
    if op == 'var':
        return list(w[f[1]]), K0
    if op == 'const':
        return [f[1]] * N, 0
    if op in ('once', 'historically'):
        c, s = _ocells(f[2], w, N, scale, K0)
        agg = max if op == 'once' else min
        e = -INF if op == 'once' else INF
        out = [None] * N
        if f[1] is None:
            acc = None
            for k in range(s, N):
                acc = c[k] if acc is None else agg(acc, c[k])
                out[k] = acc
            return out, s
        a, b = ib(f[1])
        st = 0 if a > 0 else s
        for k in range(st, N):
            lo, hi = max(s, k - b), k - a
            out[k] = agg(c[lo:hi + 1]) if hi >= lo else e
        return out, st
    if op in ('eventually', 'always'):
        c, s = _ocells(f[2], w, N, scale, K0)
        agg = max if op == 'eventually' else min
        out = [None] * N
        if f[1] is None:
            for k in range(s, N):
                out[k] = agg(c[k:N])
            return out, s
        a, b = ib(f[1])
        st = max(0, s - b)
        for k in range(st, N):
            lo, hi = max(s, min(k + a, N - 1)), min(k + b, N - 1)
            out[k] = agg(c[lo:hi + 1]) if hi >= lo else None
        return out, st
    if op in ('since', 'until') and f[1] is None:
        p, sp = _ocells(f[2], w, N, scale, K0)
        q, sq = _ocells(f[3], w, N, scale, K0)
        st = max(sp, sq)
        out = [None] * N
        for k in range(st, N):
            best = -INF
            rng = range(st, k + 1) if op == 'since' else range(k, N)
            for j in rng:
                seg = p[j:k + 1] if op == 'since' else p[k:j + 1]
                best = max(best, min(q[j], min(seg)))
            out[k] = best
        return out, st
    if op in UN_T or op in ('since', 'until', 'unless'):
        raise ValueError('no offline-variant semantics for %s' % op)
    kids = [_ocells(c, w, N, scale, K0) for c in children(f)]
    st = max([s for _, s in kids] or [0])
    out = [None] * N
    sub = ('pred', f[1], ('var', '_0'), ('var', '_1')) if op == 'pred' else f[:1] + tuple(('var', '_%d' % i) for i in range(len(kids)))
    ww = {'_%d' % i: [0 if v is None else v for v in c] for i, (c, _) in enumerate(kids)}
    vals = _cells(sub, ww, N, scale)
    for k in range(st, N):
        out[k] = vals[k]
    return out, st


def evaluate_offline_variant(f, signals, times, delta=Fraction(1, 4)):
    """(values at the given times (None where undefined), start time of the output) of the hard-coded-zero variant"""
    g = _off_rewrite(f)
    t0 = min(s[0][0] for s in signals.values())
    tend = max(s[-1][0] for s in signals.values())
    d = Fraction(delta)
    scale = 1 / d
    span = Fraction(tend) + Fraction(total_bounds(g)) + 1
    N = int(span * scale) + 2
    K0 = int(Fraction(t0) * scale)
    w = {v: [None if k < K0 else stepval(s, float(k * d)) for k in range(N)] for v, s in signals.items()}
    cells, st = _ocells(g, w, N, scale, K0)
    out = []
    for t in times:
        k = int(math.floor(Fraction(t) * scale))
        out.append(cells[k] if k >= st else None)
    return out, float(st * d)
