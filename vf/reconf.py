"""Re-configured specification objects ("lives"): the same offline specification object is configured, parsed and used under one
configuration, then switched to another one through the public setters (spec.unit = ..., set_sampling_period(...)) and used again.

The family is finite and enumerated completely: all ordered pairs of the configurations below, and for a pair that differs in both the
default unit and the sampling period both orders of the two setter calls.  The oracle is differential: after the switch the object
must behave like a FRESH object configured with the target configuration from the start (the discrete-time offline interpreter derives
every bound from the current configuration at every evaluate(), so this is how the unchanged library behaves).
No rtamt import here; impl.py does the calls."""
from fractions import Fraction

from . import impl

# (default unit, (period, period unit)); the period in seconds decides the time column
CONFIGS = {
    'A': ('s', (1, 's')),
    'B': ('ms', (1, 'ms')),
    'C': ('s', (1, 'ms')),
    'D': ('s', (500, 'ms')),
    'E': ('ms', (1, 's')),       # unit-less bounds of a few ms are not multiples of this period: used for "must be rejected" lives only
}
UNIT_S = {'s': Fraction(1), 'ms': Fraction(1, 1000), 'us': Fraction(1, 10 ** 6), 'ns': Fraction(1, 10 ** 9)}


def period_in_default_unit(cfg):
    unit, (p, pu) = CONFIGS[cfg]
    return Fraction(p) * UNIT_S[pu] / UNIT_S[unit]


def times(cfg, n, t0=0):
    """time column with exactly one period between samples, expressed in the default unit (all values dyadic or integers)"""
    q = period_in_default_unit(cfg)
    return [float(t0 + i * q) if q.denominator != 1 else int(t0 + i * q) for i in range(n)]


def lives(configs='ABCD'):
    """[(name, c0, c1, [setter steps])]; a step is ('unit', u) or ('period', (p, pu))"""
    out = []
    for a in configs:
        for b in configs:
            if a == b:
                continue
            (u0, p0), (u1, p1) = CONFIGS[a], CONFIGS[b]
            steps = []
            if u0 != u1:
                steps.append(('unit', u1))
            if p0 != p1:
                steps.append(('period', p1))
            out.append(('%s>%s' % (a, b), a, b, steps))
            if len(steps) == 2:
                out.append(('%s>%s/period-first' % (a, b), a, b, steps[::-1]))
    return out


def build(kind, text, variables, cfg, tol=0.1, **kw):
    unit, (p, pu) = CONFIGS[cfg]
    return impl.build(kind, text, variables, unit=unit, period=(p, pu, tol), **kw)


def switch(spec, steps, tol=0.1):
    for what, v in steps:
        if what == 'unit':
            spec.unit = v
        else:
            spec.set_sampling_period(v[0], v[1], tol)


def speller(suffix):
    """interval printer: suffix '' leaves the bounds unit-less (default unit), otherwise every bound carries the suffix"""
    from . import formula as F

    def bound(I):
        return '[%s%s,%s%s]' % (F.fnum(I[0]), suffix, F.fnum(I[1]), suffix)
    return bound


def in_samples(f, cfg, suffix):
    """the formula with every interval converted to sample counts under the configuration, or None when some bound is not a whole
    number of sampling periods (the library must reject such a specification)"""
    from . import formula as F
    unit, (p, pu) = CONFIGS[cfg]
    period = Fraction(p) * UNIT_S[pu]
    scale = UNIT_S[suffix or unit] / period
    ok = [True]

    def conv(g):
        kids = tuple(conv(k) for k in F.children(g))
        g = F.rebuild(g, kids)
        I = F.interval(g)
        if I is not None:
            a, b = Fraction(I[0]) * scale, Fraction(I[1]) * scale
            if a.denominator != 1 or b.denominator != 1:
                ok[0] = False
                return g
            g = (g[0], (int(a), int(b))) + tuple(g[2:])
        return g
    out = conv(f)
    return out if ok[0] else None


WARM = ((2.0,), (-1.0,), (2.0,))


def lived_objects(kind, f, suffix, vs, res, mod, case0, text=None, build_kw=None, configs='ABCD', rejecting=False):
    """(rejecting=True: also lives whose target configuration does NOT admit the formula; they are yielded with f1 = None)
    for every life c0 -> c1 in which both configurations admit the formula: a specification object that was configured with c0,
    parsed, evaluated once on a 3-sample warm-up trace, and then switched to c1.  Yields (life name, c1, formula in samples under c1, object).
    Failures on the way (the library rejecting a legal configuration) are reported as violations of the calling check."""
    from . import formula as F
    text = text or ('out = ' + F.pr(f, bound=speller(suffix)))
    for name, c0, c1, steps in lives(configs):
        f1 = in_samples(f, c1, suffix)
        if in_samples(f, c0, suffix) is None or (f1 is None and not rejecting):
            res.outcomes['life skipped: a bound is not a multiple of the period'] += 1
            continue
        spec = build(kind, text, vs, c0, **(build_kw or {}))
        nv = len(vs)
        warm = F.trace_dict(tuple(tuple(e[0] for _ in range(nv)) for e in WARM), vs)
        k, v = impl.outcome(impl.dt_evaluate, spec, warm, times(c0, len(WARM)))
        case = dict(case0, life=name)
        if k != 'ok':
            res.violation(mod, case, 'evaluate() under configuration %s raised %s' % (c0, v))
            continue
        k, v = impl.outcome(switch, spec, steps)
        if k != 'ok':
            res.violation(mod, case, 'switching %s raised %s' % (name, v))
            continue
        yield name, c1, f1, spec


def lived_object(kind, f, suffix, vs, life, text=None, build_kw=None):
    """replay helper: the object of one life (no error handling)"""
    from . import formula as F
    text = text or ('out = ' + F.pr(f, bound=speller(suffix)))
    name, c0, c1, steps = [l for l in lives('ABCDE') if l[0] == life][0]
    spec = build(kind, text, vs, c0, **(build_kw or {}))
    warm = F.trace_dict(tuple(tuple(e[0] for _ in range(len(vs))) for e in WARM), vs)
    impl.dt_evaluate(spec, warm, times(c0, len(WARM)))
    switch(spec, steps)
    return c1, in_samples(f, c1, suffix), spec
