"""CLI:  check <ID> [--tier quick|thorough]   |   check --replay <path>"""
import os
import sys
import tempfile
import shutil
import atexit


def main(argv):
    # compile rtamt from /repo's current sources: never read or write byte-code caches
    pyc = tempfile.mkdtemp(prefix='verif_pyc_')
    sys.pycache_prefix = pyc
    sys.dont_write_bytecode = True
    pid = os.getpid()
    atexit.register(lambda: os.getpid() == pid and shutil.rmtree(pyc, ignore_errors=True))
    sys.setrecursionlimit(10000)
    from vf import runner
    if len(argv) >= 2 and argv[0] == '--replay':
        return runner.replay(argv[1])
    if not argv:
        print(__doc__)
        return 2
    check_id = argv[0].upper()
    tier = os.environ.get('VERIF_TIER') or 'quick'
    if '--tier' in argv:
        tier = argv[argv.index('--tier') + 1]
    if tier not in ('quick', 'thorough'):
        print('unknown tier', tier)
        return 2
    seed = int(os.environ.get('VERIF_SEED', '0') or 0)
    return runner.run(check_id, tier, seed)


if __name__ == '__main__':
    sys.exit(main(sys.argv[1:]))
