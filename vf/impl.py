"""Adapters to the real implementation: only the public rtamt API is used."""
import logging
import os
import signal
import sys
import io
import contextlib

logging.disable(logging.CRITICAL)

# the registered commands monitor /repo's working tree (editable install); VERIF_REPO lets a background sweep run against a
# snapshot of the repository instead
REPO = os.environ.get('VERIF_REPO') or '/repo'
if REPO != '/repo':
    sys.path.insert(0, REPO)

import rtamt  # noqa: E402  (the editable install resolves to /repo's working tree)
assert os.path.realpath(rtamt.__file__).startswith(os.path.realpath(REPO) + os.sep), (rtamt.__file__, REPO)
from rtamt import RTAMTException, Semantics  # noqa: E402

KINDS = ('dt_off', 'dt_on', 'ct_off', 'ct_on')

SEM = {
    'standard': Semantics.STANDARD,
    'output_robustness': Semantics.OUTPUT_ROBUSTNESS,
    'input_robustness': Semantics.INPUT_ROBUSTNESS,
    'output_vacuity': Semantics.OUTPUT_VACUITY,
    'input_vacuity': Semantics.INPUT_VACUITY,
}


def new_spec(kind, semantics='standard', combined=False):
    """a fresh specification object of the given monitor kind"""
    if semantics != 'standard' or combined:
        if kind.startswith('dt'):
            return rtamt.StlDiscreteTimeSpecification(semantics=SEM[semantics])
        return rtamt.StlDenseTimeSpecification(semantics=SEM[semantics])
    if kind == 'dt_off':
        return rtamt.StlDiscreteTimeOfflineSpecification()
    if kind == 'dt_on':
        return rtamt.StlDiscreteTimeOnlineSpecification()
    if kind == 'ct_off':
        return rtamt.StlDenseTimeOfflineSpecification()
    if kind == 'ct_on':
        return rtamt.StlDenseTimeOnlineSpecification()
    raise ValueError(kind)


def build(kind, text, variables, subspecs=(), consts=(), io_types=None, semantics='standard', unit=None,
          period=None, pastify=False, combined=False, parse=True, var_type='float', struct=None):
    """declare, configure and parse a specification.
    variables: iterable of names (declared float); subspecs: texts for add_sub_spec; consts: (name, type, value)
    io_types: {var: 'input'|'output'}; period: (value, unit[, tolerance])"""
    s = new_spec(kind, semantics, combined)
    if struct:
        # presentation "one structured variable": every variable v of the text becomes the field m.v (struct='flat') or m.inner.v
        # ('nested') of ONE variable m whose samples are objects; the data adapters below pack the columns accordingly
        cls = STRUCT[struct][0]
        s.import_module('vf.msgs', cls)
        s.declare_var(STRUCT_VAR, cls)
        text = structify(text, variables, struct)
        subspecs = [structify(t, variables, struct) for t in subspecs]
        s._vf_struct = (struct, tuple(variables))
        variables = ()
    for v in variables:
        s.declare_var(v, var_type)
    for c in consts:
        s.declare_const(*c)
    if io_types:
        for v, t in io_types.items():
            s.set_var_io_type(v, t)
    if unit is not None:
        s.unit = unit
    if period is not None:
        s.set_sampling_period(*period)
    for t in subspecs:
        s.add_sub_spec(t)
    s.spec = text
    if parse:
        s.parse()
        if pastify:
            s.pastify()
    return s


STRUCT_VAR = 'm'
STRUCT = {'flat': ('Msg', 'm.'), 'nested': ('Outer', 'm.inner.')}


def structify(text, variables, struct):
    import re
    if not variables:
        return text
    return re.sub(r'(?<![\w.])(%s)(?![\w.])' % '|'.join(re.escape(v) for v in variables), lambda mo: STRUCT[struct][1] + mo.group(1), text)


def pack(spec, sample):
    """{var: value} -> the one structured sample"""
    from . import msgs
    return getattr(msgs, STRUCT[spec._vf_struct[0]][0])(**sample)


def build_steps(kind, text, variables, steps, subspecs=()):
    """like build(), with the configuration calls in the given order.  steps: 'parse' | 'pastify' | ('unit', u) | ('period', (p, unit[, tol]))"""
    s = new_spec(kind)
    for v in variables:
        s.declare_var(v, 'float')
    for t in subspecs:
        s.add_sub_spec(t)
    s.spec = text
    for st in steps:
        if st == 'parse':
            s.parse()
        elif st == 'pastify':
            s.pastify()
        elif st[0] == 'unit':
            s.unit = st[1]
        elif st[0] == 'period':
            s.set_sampling_period(*st[1])
        else:
            raise ValueError(st)
    return s


@contextlib.contextmanager
def quiet():
    """rtamt's discrete LnOperation prints to stdout; keep the check's output clean"""
    old = sys.stdout
    sys.stdout = io.StringIO()
    try:
        yield
    finally:
        sys.stdout = old


def dt_evaluate(spec, trace, times=None):
    """trace: {var: [values]}; returns the list returned by evaluate()"""
    d = {'time': list(times) if times is not None else list(range(len(next(iter(trace.values())))))}
    if getattr(spec, '_vf_struct', None):
        d[STRUCT_VAR] = [pack(spec, {v: vals[i] for v, vals in trace.items()}) for i in range(len(d['time']))]
        return spec.evaluate(d)
    for v, vals in trace.items():
        d[v] = list(vals)
    return spec.evaluate(d)


def dt_update(spec, t, sample):
    """sample: {var: value}"""
    if getattr(spec, '_vf_struct', None):
        return spec.update(t, [(STRUCT_VAR, pack(spec, sample))])
    return spec.update(t, [(v, x) for v, x in sample.items()])


def ct_evaluate(spec, signals):
    """signals: {var: [(t, v), ...]}"""
    if getattr(spec, '_vf_struct', None):
        return spec.evaluate([STRUCT_VAR, pack_signals(spec, signals)])
    args = [[v, [[t, x] for t, x in s]] for v, s in signals.items()]
    return spec.evaluate(*args)


def ct_update(spec, batches):
    """batches: {var: [(t, v), ...]}"""
    if getattr(spec, '_vf_struct', None):
        return spec.update([STRUCT_VAR, pack_signals(spec, batches)])
    args = [[v, [[t, x] for t, x in s]] for v, s in batches.items()]
    return spec.update(*args)


def aligned(signals):
    """can the signals be presented as ONE signal of structured samples?  (same sampling instants for every variable)"""
    ts = [[t for t, _ in s] for s in signals.values()]
    return all(t == ts[0] for t in ts)


def pack_signals(spec, signals):
    assert aligned(signals), 'structured presentation needs identical sampling instants'
    vs = list(signals)
    n = len(signals[vs[0]]) if vs else 0
    return [[signals[vs[0]][i][0], pack(spec, {v: signals[v][i][1] for v in vs})] for i in range(n)]


CALL_LIMIT_S = float(os.environ.get('VERIF_CALL_LIMIT_S', '20'))


class CallTimeLimit(Exception):
    pass


def _alarm(signum, frame):
    raise CallTimeLimit('no result within %g s' % CALL_LIMIT_S)


def outcome(fn, *a, **k):
    """('ok', value) | ('rtamt', msg) | ('exc', 'TypeName: msg').  Every monitored call runs under a wall-clock limit (a bound
    mis-scaled by 10^9 makes a monitor loop for hours): exceeding it is reported like any other non-RTAMT exception."""
    own = False
    try:
        if signal.getitimer(signal.ITIMER_REAL)[0] == 0:
            old = signal.signal(signal.SIGALRM, _alarm)
            signal.setitimer(signal.ITIMER_REAL, CALL_LIMIT_S)
            own = True
    except ValueError:      # not in the main thread
        own = False
    try:
        return _outcome(fn, *a, **k)
    finally:
        if own:
            signal.setitimer(signal.ITIMER_REAL, 0)
            signal.signal(signal.SIGALRM, old)


def _outcome(fn, *a, **k):
    try:
        with quiet():
            return ('ok', fn(*a, **k))
    except RTAMTException as e:
        return ('rtamt', str(e)[:200])
    except RecursionError as e:  # pragma: no cover
        return ('exc', 'RecursionError')
    except Exception as e:
        return ('exc', '%s: %s' % (type(e).__name__, str(e)[:200]))
