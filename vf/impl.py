"""Adapters to the real implementation: only the public rtamt API is used."""
import logging
import os
import signal
import sys
import io
import contextlib

logging.disable(logging.CRITICAL)

# the registered commands monitor /repo's working tree (editable install); VERIF_REPO lets a background sweep run against a
# snapshot of the repository instead
REPO = os.environ.get('VERIF_REPO') or '/repo'
if REPO != '/repo':
    sys.path.insert(0, REPO)

import rtamt  # noqa: E402  (the editable install resolves to /repo's working tree)
assert os.path.realpath(rtamt.__file__).startswith(os.path.realpath(REPO) + os.sep), (rtamt.__file__, REPO)
from rtamt import RTAMTException, Semantics  # noqa: E402

KINDS = ('dt_off', 'dt_on', 'ct_off', 'ct_on')

SEM = {
    'standard': Semantics.STANDARD,
    'output_robustness': Semantics.OUTPUT_ROBUSTNESS,
    'input_robustness': Semantics.INPUT_ROBUSTNESS,
    'output_vacuity': Semantics.OUTPUT_VACUITY,
    'input_vacuity': Semantics.INPUT_VACUITY,
}


def new_spec(kind, semantics='standard', combined=False):
    """a fresh specification object of the given monitor kind"""
    if semantics != 'standard' or combined:
        if kind.startswith('dt'):
            return rtamt.StlDiscreteTimeSpecification(semantics=SEM[semantics])
        return rtamt.StlDenseTimeSpecification(semantics=SEM[semantics])
    if kind == 'dt_off':
        return rtamt.StlDiscreteTimeOfflineSpecification()
    if kind == 'dt_on':
        return rtamt.StlDiscreteTimeOnlineSpecification()
    if kind == 'ct_off':
        return rtamt.StlDenseTimeOfflineSpecification()
    if kind == 'ct_on':
        return rtamt.StlDenseTimeOnlineSpecification()
    raise ValueError(kind)


def build(kind, text, variables, subspecs=(), consts=(), io_types=None, semantics='standard', unit=None,
          period=None, pastify=False, combined=False, parse=True, var_type='float'):
    """declare, configure and parse a specification.
    variables: iterable of names (declared float); subspecs: texts for add_sub_spec; consts: (name, type, value)
    io_types: {var: 'input'|'output'}; period: (value, unit[, tolerance])"""
    s = new_spec(kind, semantics, combined)
    for v in variables:
        s.declare_var(v, var_type)
    for c in consts:
        s.declare_const(*c)
    if io_types:
        for v, t in io_types.items():
            s.set_var_io_type(v, t)
    if unit is not None:
        s.unit = unit
    if period is not None:
        s.set_sampling_period(*period)
    for t in subspecs:
        s.add_sub_spec(t)
    s.spec = text
    if parse:
        s.parse()
        if pastify:
            s.pastify()
    return s


def build_steps(kind, text, variables, steps, subspecs=()):
    """like build(), with the configuration calls in the given order.  steps: 'parse' | 'pastify' | ('unit', u) | ('period', (p, unit[, tol]))"""
    s = new_spec(kind)
    for v in variables:
        s.declare_var(v, 'float')
    for t in subspecs:
        s.add_sub_spec(t)
    s.spec = text
    for st in steps:
        if st == 'parse':
            s.parse()
        elif st == 'pastify':
            s.pastify()
        elif st[0] == 'unit':
            s.unit = st[1]
        elif st[0] == 'period':
            s.set_sampling_period(*st[1])
        else:
            raise ValueError(st)
    return s


@contextlib.contextmanager
def quiet():
    """rtamt's discrete LnOperation prints to stdout; keep the check's output clean"""
    old = sys.stdout
    sys.stdout = io.StringIO()
    try:
        yield
    finally:
        sys.stdout = old


def dt_evaluate(spec, trace, times=None):
    """trace: {var: [values]}; returns the list returned by evaluate()"""
    d = {'time': list(times) if times is not None else list(range(len(next(iter(trace.values())))))}
    for v, vals in trace.items():
        d[v] = list(vals)
    return spec.evaluate(d)


def dt_update(spec, t, sample):
    """sample: {var: value}"""
    return spec.update(t, [(v, x) for v, x in sample.items()])


def ct_evaluate(spec, signals):
    """signals: {var: [(t, v), ...]}"""
    args = [[v, [[t, x] for t, x in s]] for v, s in signals.items()]
    return spec.evaluate(*args)


def ct_update(spec, batches):
    """batches: {var: [(t, v), ...]}"""
    args = [[v, [[t, x] for t, x in s]] for v, s in batches.items()]
    return spec.update(*args)


CALL_LIMIT_S = float(os.environ.get('VERIF_CALL_LIMIT_S', '20'))


class CallTimeLimit(Exception):
    pass


def _alarm(signum, frame):
    raise CallTimeLimit('no result within %g s' % CALL_LIMIT_S)


def outcome(fn, *a, **k):
    """('ok', value) | ('rtamt', msg) | ('exc', 'TypeName: msg').  Every monitored call runs under a wall-clock limit (a bound
    mis-scaled by 10^9 makes a monitor loop for hours): exceeding it is reported like any other non-RTAMT exception."""
    own = False
    try:
        if signal.getitimer(signal.ITIMER_REAL)[0] == 0:
            old = signal.signal(signal.SIGALRM, _alarm)
            signal.setitimer(signal.ITIMER_REAL, CALL_LIMIT_S)
            own = True
    except ValueError:      # not in the main thread
        own = False
    try:
        return _outcome(fn, *a, **k)
    finally:
        if own:
            signal.setitimer(signal.ITIMER_REAL, 0)
            signal.signal(signal.SIGALRM, old)


def _outcome(fn, *a, **k):
    try:
        with quiet():
            return ('ok', fn(*a, **k))
    except RTAMTException as e:
        return ('rtamt', str(e)[:200])
    except RecursionError as e:  # pragma: no cover
        return ('exc', 'RecursionError')
    except Exception as e:
        return ('exc', '%s: %s' % (type(e).__name__, str(e)[:200]))
