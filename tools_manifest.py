#!/usr/bin/env python3
"""Regenerates MANIFEST.json from the table below (keeps it valid at all times)."""
import json, os
ROOT = os.path.dirname(os.path.abspath(__file__))

CHECKS = {}
NOT_YET = {}

def chk(pid, level, technique, text, note, design):
    CHECKS[pid] = dict(level=level, technique=technique, text=text, note=note, design=design)

chk('C01', 'exploration', 'bounded exhaustive enumeration of formulas x traces on the real offline monitor vs reference semantics',
    'every formula of the stated fragments (<=2 operators over the full operator/interval alphabet, 3-chains, arithmetic terms) '
    'is evaluated by the real discrete-time offline monitor on every trace up to length 3-5 over a 3-value alphabet and compared '
    'sample by sample with an independent reference rho; exhaustive within those bounds, nothing beyond them',
    'trusted: vf/refsem.py (literal transcription of the README definition); values dyadic; longer traces / deeper formulas not covered',
    'DESIGN.md section 5 C01')

chk('C02', 'model_checking', 'explicit-state BFS over update() histories of the real online monitor (product with a reference summary), to fixpoint where the search closes',
    'for every past-time formula of the stated set the reachable state space of the real online monitor over a finite value alphabet is explored breadth-first; '
    'every transition is one real update() and is compared with the reference rho and with rtamt offline evaluate(); a closed search covers traces of every length over the alphabet',
    'trusted: vf/refsem.py; state key = generic object-graph dump x reference summary, merges validated one step deep; capped searches are reported as bounded',
    'DESIGN.md section 5 C02, section 1 (E2)')

chk('C03', 'model_checking', 'explicit-state BFS over update() histories of the real pastified monitor against the delayed reference',
    'for every bounded-future formula of the stated set (<=2 operators, 3-chains, unit-spelled bounds, arithmetic atoms) the real pastified online monitor is explored breadth-first over a finite value alphabet; '
    'every update i >= h must return the reference robustness at i-h; future-free formulas must be unchanged by pastify() for every unit spelling',
    'trusted: vf/refsem.py incl. its horizon; one open known finding (site:C03-past-over-future) is suppressed by a syntactic predicate; default 1 s sampling period',
    'DESIGN.md section 5 C03')

chk('C04', 'exploration', 'bounded exhaustive enumeration of dense formulas x grid step signals on the real dense offline monitor vs grid reference',
    'every dense-time formula of the stated fragment is evaluated by the real offline monitor on every step signal with break-points on the half-unit grid of [t0,t0+L] '
    '(independent per variable) and compared as a function with an exact cell-wise reference at every cell start and midpoint; exhaustive within those bounds',
    'trusted: vf/dref.py (self-checked at two resolutions); one open known finding (t0 > 0 with bounded operators) suppressed syntactically',
    'DESIGN.md section 5 C04')

chk('C05', 'model_checking', 'explicit-state BFS over all update() schedules (chunkings) of the real dense online monitor',
    'for every (formula, signal set) all ways of cutting the signals into successive update() batches are explored as a state graph; on every transition the emitted samples must be '
    'time-ordered and equal the dense reference at every grid time covered, so no two chunkings can disagree',
    'trusted: vf/dref.py; finite family of signal sets (fixed time sets, values {-1,2}); coverage of the output is not constrained',
    'DESIGN.md section 5 C05')

chk('C10', 'model_checking', 'explicit-state BFS over pre-reset histories; reset() applied in every reached state; bounded behavioural comparison with a fresh monitor',
    'every state of the real online monitor reached by the BFS (discrete: product BFS; dense: all schedule prefixes), including the initial one, is reset and then driven with a family of '
    'post-reset input sequences; outputs and the violation counter must equal those of a freshly parsed (and pastified) monitor',
    'post-reset futures are compared on a bounded probe family (all sequences of length <= 2 plus constant probes longer than the largest bound)',
    'DESIGN.md section 5 C10')

chk('C13', 'model_checking', 'explicit-state BFS over time-stamp gap sequences of the real online monitor per configuration, exhaustive offline time columns',
    'for each of 40 configurations (period, period unit, default unit, tolerance) all gap sequences over an 8-letter dyadic gap alphabet are explored on the real online monitor with the counters in the state key; '
    'the counter must equal the exact number of out-of-tolerance gaps and the robustness must be unaffected; the same sequences are evaluated offline (offline and combined specification)',
    'dyadic periods/tolerances so that the interval test is exact; time-stamps in the default unit; sequence length bounded',
    'DESIGN.md section 5 C13')

chk('C09', 'model_checking', 'explicit-state BFS of the real modular monitor per decomposition + exhaustive offline traces/signals, against the inlined reference',
    'every decomposition of the base formulas into named sub-specifications (shared, nested, add_sub_spec and multi-assertion form) and declared constants is monitored by the real implementation: '
    'discrete online by product BFS (plain and pastified), dense online over all schedules, offline kinds on all traces / grid signals; outputs must equal the reference of the inlined formula',
    'trusted: vf/refsem.py, vf/dref.py; base formula list is hand-picked plus (thorough) an enumerated slice; decompositions enumerated exhaustively per formula',
    'DESIGN.md section 5 C09')

chk('C12', 'model_checking', 'explicit-state BFS with stand-alone monitors in lock-step + exhaustive offline traces/signals; get_value of every name compared',
    'for every decomposition of the base formulas, after every evaluate()/update() get_value(name) of every assertion and sub-specification is compared with a real stand-alone specification of the inlined formula '
    '(same kind, pastified too) and get_value(var) with the supplied data; online kinds explored as state graphs (product BFS / all schedules)',
    'the oracle is the real stand-alone monitor (whose correctness is C01-C05); dense values compared as functions',
    'DESIGN.md section 5 C12')

chk('C16', 'exploration', 'bounded exhaustive enumeration of formulas x traces x all extensions on the real offline monitors',
    'for every bounded-future formula of the set, every trace w1 up to length n and EVERY extension w2 by up to k samples over the alphabet, the real offline monitor must return identical values on the settled region t+h<|w1| '
    '(discrete and dense time); the guard counts cases whose unsettled positions do change, so the boundary is tight',
    'horizon from the reference (next = 1); bounded trace and extension lengths',
    'DESIGN.md section 5 C16')

chk('C18', 'exploration', 'bounded exhaustive enumeration of law instances x traces, both sides on the same real monitor',
    'every instance of the listed dualities/expansion laws over a finite operand set and all bound pairs is monitored on both sides by the same real monitor kind (4 kinds, pastified online for future laws) on all traces / grid signals; the sides must be identical; laws validated on the reference first',
    'finite operand set; dense online compared where both outputs are defined',
    'DESIGN.md section 5 C18')

chk('C19', 'exploration', 'bounded exhaustive enumeration of formulas x grid traces, real dense monitor vs real discrete monitor',
    'every formula of the stated fragment is evaluated by the real dense offline monitor on the grid step signal and by the real discrete offline monitor on the same trace (periods 1 s and 500 ms); values must agree at every sampling instant with k+h<n',
    'bounded formula size and trace length; both sides are the implementation',
    'DESIGN.md section 5 C19')

chk('C07', 'exploration', 'bounded exhaustive enumeration of formulas x traces x 4 real monitors; exhaustive enumeration of each perturbation neighbourhood',
    'every iff/xor-free formula of the set is monitored by the four real monitor kinds on every trace up to length 3 over {-2..2}; every reported positive (negative) value must coincide with Boolean satisfaction (violation) computed by an independent evaluator, '
    'and for every finite non-zero value all traces of the alphabet within distance |rho| are enumerated and must have the same verdict',
    'the real-valued ball is covered on the integer grid only; open finding site:C03-past-over-future (pastified past-over-future) suppressed syntactically',
    'DESIGN.md section 5 C07')

chk('C06', 'exploration', 'bounded exhaustive enumeration of formulas x io assignments x semantics x monitor kinds x traces vs reference with predicate hook',
    'formulas over predicates on inputs only, outputs only and mixed are monitored by the 4 real monitor kinds under the 5 semantics and all input/output assignments of (x,y) on all traces up to length 3 / a family of unaligned grid signals; '
    'results must equal the reference in which exactly the insensitive predicates are replaced by +-inf / 0',
    'trusted: reference with predicate hook (vf/refsem.py, vf/dref.py)',
    'DESIGN.md section 5 C06')

chk('C08', 'exploration', 'exhaustive enumeration of the configuration lattice of unit spellings x traces on the real monitors',
    'for each bounded-operator formula ALL spellings of its bounds (25 suffix combinations x 3 default units x 4 sampling periods) are parsed and monitored offline, online and pastified online on all traces up to length 3-4 and must return the reference of the sample-count bounds; '
    'all spellings of non-multiple bounds must be rejected with RTAMTException; dense time: all spellings x default units with rescaled time-stamps against the dense reference',
    'one open finding (non-multiple bounds whose width is a multiple are accepted after pastify) suppressed by a syntactic predicate on the reject cases',
    'DESIGN.md section 5 C08')

chk('C20', 'exploration', 'bounded exhaustive enumeration of formulas x Boolean-valued traces x all re-assignments of the unreported positions',
    'for every formula of the explainer fragment and every trace of length <= 4 over {-1,1} the real evaluate()+explain() is run; for a violated trace ALL re-assignments of the positions that are not reported are enumerated and must still violate (reference rho < 0); for a satisfied trace nothing may be reported',
    'values restricted to {-1,1}; one open finding (iff/xor/rise/fall over polarity-dependent operands) suppressed by a syntactic predicate',
    'DESIGN.md section 5 C20')

chk('C17', 'exploration', 'exhaustive enumeration of the operator x monitor-kind x data-shape matrix on the real monitors',
    'every operator alone and nested under/above every other one (<=2 operators) and every arithmetic operator is run under the six monitor configurations and ten data shapes (1 or 3 samples; plain, unused declared variable with/without data, undeclared supplied variable, reversed order); '
    'supported combinations must return normally, unsupported ones must raise RTAMTException at parse/pastify/first evaluation and never yield a value',
    'the support matrix is the one stated in the property; returned values are not judged here',
    'DESIGN.md section 5 C17')

chk('C14', 'exploration', 'exhaustive enumeration of token strings and single-token edits, real parse() vs an Earley recogniser of the grammar',
    'all token strings up to length 4 (thorough 5) over a 28-token alphabet with and without an assertion head, every single-token deletion/insertion/substitution of a corpus covering every production, every insertion of a non-token character, all small bound pairs; '
    'an accepted text must be derivable (Earley over the transcribed productions), have no skipped character, satisfy 0<=begin<=end and declared bound constants, and survive a first evaluation; every other text must raise RTAMTException within the time limit',
    'one-directional oracle as in the statement; grammar transcription bound to the .g4 files by a self-check; termination up to 5 s',
    'DESIGN.md section 5 C14')

chk('C15', 'exploration', 'bounded exhaustive enumeration of formulas x spelling variants, real parser + monitor vs canonical spelling and reference',
    'for every formula with <=2 operators (and arithmetic/predicate nestings) all spelling variants - aliases, both separators, 0-2 redundant parenthesis levels, with/without head and trailing ;, the minimally parenthesised spelling per the grammar order, LTL front end - '
    'are parsed by the real parser and evaluated on all traces up to length 3; results must equal those of the fully parenthesised keyword spelling, which in turn equals the reference',
    'precedence model read from StlParser.g4 at run time; equality of results on all short traces stands for "same monitor"',
    'DESIGN.md section 5 C15')

chk('C11', 'model_checking', 'exhaustive enumeration of all interleavings of calls on 2-3 specification objects + argument-purity wrapping + hash-seed subprocess matrix',
    'all merge orders of the call sequences of two and three real specification objects that share texts, names and kinds are executed and every result compared with the isolated run; every evaluate/update of a workload is wrapped with deep-copy comparison of the arguments; '
    'd1,d2,d1 repeatability for all ordered trace pairs; identical result digests under 8 (64) hash seeds',
    'hash seeds: stated subset only; <= 3 calls per object',
    'DESIGN.md section 5 C11')

# multi-step layers added after the seeded waves 8 and 9 (DESIGN.md section 13.10): the same exhaustive enumeration over operation SEQUENCES on one or
# several specification objects, not only over (formula, input) pairs
MULTI = {
    'C01': 'objects re-configured between two evaluations (all ordered pairs of 4 configurations)',
    'C02': 'two co-resident monitors stepped in every interleaving, reset() of the second as an event',
    'C03': 'five orders of the configuration calls around parse()/pastify()',
    'C04': 'one object alternating between rejected and accepted data sets, with named sub-formulas',
    'C06': 'interface re-declared with set_var_io_type() and parsed again (all ordered pairs of declarations)',
    'C07': 'objects re-configured between two evaluations',
    'C08': 'objects re-configured between two evaluations, including configurations that must then be rejected',
    'C10': 'pre-reset histories that contain rejected update() calls',
    'C11': 'isolation baseline taken in a fresh interpreter; same period number in different units',
    'C12': 'get_value on re-configured objects against fresh stand-alone specifications',
    'C13': 'configuration switched between two runs of one object (offline: second evaluate(); online: after reset())',
    'C14': 'all sequences of up to 5 (thorough 6) operations {spec texts, add_sub_spec texts, parse()} on one object',
    'C15': 'all variants given one after the other to one online object (parse, pastify, reset, updates); layout variants (white space, line ends, comments)',
    'C16': 'objects with an earlier life under another configuration',
    'C17': 'objects that held and evaluated another specification before (spec.spec = ...; parse() again)',
    'C18': 'both sides of a law after a rejected update() and reset()',
    'C19': 'dense and discrete objects re-configured between two evaluations',
}
for _pid, _t in MULTI.items():
    CHECKS[_pid]['text'] += '; multi-step layer: ' + _t

# feature-product layers added after the seeded waves 11 and 12 (DESIGN.md sections 13.12, 13.13)
PRODUCT = {
    'C01': 'variables presented as fields of one structured variable; int-declared variables with fractional samples',
    'C02': 'the same BFS under the interface-aware semantics with input/output declarations; structured samples',
    'C04': 'unit notations alternating from interval to interval, the same bounded operator nested in itself',
    'C05': 'time axes with large offsets / tiny spacings (exactly representable); staircase signals over all orders of five levels',
    'C06': 'predicates whose operands are Boolean / temporal expressions',
    'C08': 'non-dyadic and float sampling periods (k/1000 s for k = 1..120, thorough 1..1000); the combined class StlDiscreteTimeSpecification',
    'C09': 'modular presentations under the interface-aware semantics; constants declared with Python numbers; dense online modular monitor compared call by call with the inlined text on a twin monitor',
    'C10': 'post-reset update() calls that leave a variable out; monitors under the interface-aware semantics',
    'C11': 'observers (explain, spec_print, get_value, counter) between two evaluations, also under a 500 ms period',
    'C12': 'bare variables beside future operators after pastify()',
    'C13': 'periods of a few ns with sub-ns time-stamps',
    'C14': 'declarations and imports in the text; literals of absurd magnitude or length',
    'C15': 'comparisons whose operands are comparisons',
    'C16': 'bounded operators (incl. unless) written in ms / mixed units under a 500 ms period',
    'C19': 'the combined classes StlDiscreteTimeSpecification / StlDenseTimeSpecification',
    'C20': 'comparisons over temporal / Boolean operands (second open known finding)',
}
for _pid, _t in PRODUCT.items():
    CHECKS[_pid]['text'] += '; feature-product layer: ' + _t


def main():
    props = [json.loads(l) for l in open(os.path.join(ROOT, 'properties.jsonl'))]
    checks = []
    na = []
    for p in props:
        pid = p['id']
        if pid in CHECKS:
            c = CHECKS[pid]
            checks.append({
                'property_id': pid,
                'quick_cmd': './check %s --tier quick' % pid,
                'thorough_cmd': './check %s --tier thorough' % pid,
                'evidence_file': 'evidence/%s.json' % pid,
                'replay_cmd_template': './check --replay {path}',
                'engine': 'vf',
                'level_claimed': {'category': c['level'], 'text': c['text'], 'design_ref': c['design']},
                'level_note': c['note'],
                'technique': c['technique'],
            })
        else:
            na.append({'property_id': pid, 'reason': NOT_YET.get(pid, 'check not built yet (work in progress; planned in DESIGN.md section 5)')})
    m = {
        'version': 1,
        'setup_cmd': 'true',
        'hooks': {'guard': 'RTAMT_VERIF', 'enable': 'no source hooks are needed: the checks drive the public API of the working tree in /repo',
                  'baseline_off_cmd': 'cd /repo && /venv/bin/python -m pytest -ra -q -p no:cacheprovider --timeout=900 --continue-on-collection-errors',
                  'source_commits': [], 'add_only': True},
        'engines': [{'name': 'vf', 'path': 'vf/', 'serves_properties': sorted(CHECKS),
                     'kind_free_text': 'hand-written bounded-exhaustive explorer in Python: E1 program x input enumeration, E2 explicit-state BFS over API-call histories of the real monitors, against Python reference semantics'}],
        'checks': checks,
        'not_applicable': na,
        'notes': 'see DESIGN.md; known findings in known_findings.txt',
    }
    json.dump(m, open(os.path.join(ROOT, 'MANIFEST.json'), 'w'), indent=1)
    print('checks:', len(checks), 'not claimed:', len(na))

if __name__ == '__main__':
    main()
