#!/bin/sh
# runs the pinned suite of /repo (or $1) and prints the pass/fail summary line
cd "${1:-/repo}" && PYTHONDONTWRITEBYTECODE=1 /venv/bin/python -m pytest -q -p no:cacheprovider --timeout=900 --continue-on-collection-errors 2>&1 | tail -3
