import rtamt, logging, itertools, collections, time, io, contextlib, sys
logging.disable(logging.CRITICAL)
TOK=['x','1','1.5','(',')','[',']',',',':',';','=','>=','==','-','+','not','and','always','until','unless','s','ms','out','prev','once','since','abs','rise']
def p(txt):
    s=rtamt.StlDiscreteTimeOfflineSpecification(); s.declare_var('x','float'); s.declare_var('out','float'); s.spec=txt
    err=io.StringIO()
    with contextlib.redirect_stderr(err):
        try:
            s.parse(); r='OK'
        except rtamt.RTAMTException as e: r='RTAMT'
        except Exception as e: r='OTHER:%s:%s'%(type(e).__name__,str(e)[:40])
    if err.getvalue(): r+='+STDERR'
    return r
cnt=collections.Counter(); ex={}
t=time.time(); n=0
for L in (1,2,3):
    for toks in itertools.product(TOK,repeat=L):
        txt=' '.join(toks); r=p(txt); n+=1
        k=r.split(':')[0]+(':'+r.split(':')[1] if r.startswith('OTHER') else '')
        cnt[k]+=1; ex.setdefault(r,txt)
print(n,'strings %.1fs'%(time.time()-t)); print(cnt)
for k,v in ex.items():
    if k.startswith('OTHER') or 'STDERR' in k: print(k,'<=',repr(v))
# prefixed with 'out ='
cnt=collections.Counter(); ex={}
for L in (1,2,3):
    for toks in itertools.product(TOK,repeat=L):
        txt='out = '+' '.join(toks); r=p(txt)
        cnt[r.split(':')[0]+(':'+r.split(':')[1] if r.startswith('OTHER') else '')]+=1; ex.setdefault(r,txt)
print(cnt)
for k,v in ex.items():
    if k.startswith('OTHER') or 'STDERR' in k: print(k,'<=',repr(v))
