# quick dense-time reference on an integer grid (cells [k,k+1)), last value held, past looks back to cell 0
import itertools, math
INF=float('inf')
def pr(f):
    op=f[0]
    if op=='var': return f[1]
    if op=='const': return repr(f[1])
    if op=='pred': return '(%s %s %s)'%(pr(f[2]),f[1],pr(f[3]))
    if op=='not': return 'not(%s)'%pr(f[1])
    if op in('and','or','implies'): return '((%s) %s (%s))'%(pr(f[1]),op,pr(f[2]))
    if op in('once','historically','eventually','always'):
        b='' if f[1] is None else '[%d,%d]'%f[1]
        return '%s%s(%s)'%(op,b,pr(f[2]))
    if op in('since','until'):
        b='' if f[1] is None else '[%d,%d]'%f[1]
        return '((%s) %s%s (%s))'%(pr(f[2]),op,b,pr(f[3]))
    raise Exception(op)
def ev(f,w,N):
    """returns list of N cell values; N chosen so large that last cells are in 'held' regime; w: var->list of N values"""
    op=f[0]
    if op=='var': return list(w[f[1]])
    if op=='const': return [f[1]]*N
    if op=='pred':
        l=ev(f[2],w,N); r=ev(f[3],w,N); c=f[1]
        if c in('>=','>'): return [a-b for a,b in zip(l,r)]
        if c in('<=','<'): return [b-a for a,b in zip(l,r)]
        if c=='==': return [-abs(a-b) for a,b in zip(l,r)]
        return [abs(a-b) for a,b in zip(l,r)]
    if op=='not': return [-a for a in ev(f[1],w,N)]
    if op=='and': return [min(a,b) for a,b in zip(ev(f[1],w,N),ev(f[2],w,N))]
    if op=='or': return [max(a,b) for a,b in zip(ev(f[1],w,N),ev(f[2],w,N))]
    if op=='implies': return [max(-a,b) for a,b in zip(ev(f[1],w,N),ev(f[2],w,N))]
    if op in('once','historically'):
        c=ev(f[2],w,N); agg=max if op=='once' else min; e=-INF if op=='once' else INF
        out=[]
        for k in range(N):
            lo,hi=(0,k) if f[1] is None else (max(0,k-f[1][1]),k-f[1][0])
            out.append(agg(c[lo:hi+1]) if hi>=lo and hi>=0 else e)
        return out
    if op in('eventually','always'):
        c=ev(f[2],w,N); agg=max if op=='eventually' else min
        out=[]
        for k in range(N):
            lo,hi=(k,N-1) if f[1] is None else (min(k+f[1][0],N-1),min(k+f[1][1],N-1))
            out.append(agg(c[lo:hi+1]))
        return out
    if op=='since':
        p=ev(f[2],w,N); q=ev(f[3],w,N); out=[]
        for k in range(N):
            best=-INF
            lo,hi=(0,k) if f[1] is None else (max(0,k-f[1][1]),k-f[1][0])
            for j in range(lo,hi+1):
                best=max(best,min(q[j],min(p[j:k+1])))
            out.append(best)
        return out
    if op=='until':
        p=ev(f[2],w,N); q=ev(f[3],w,N); out=[]
        for k in range(N):
            best=-INF
            lo,hi=(k,N-1) if f[1] is None else (min(k+f[1][0],N-1),min(k+f[1][1],N-1))
            for j in range(lo,hi+1):
                best=max(best,min(q[j],min(p[k:j+1])))
            # beyond N-1 everything is held so nothing new
            out.append(best)
        return out
    raise Exception(op)
def stepval(samples,t):
    v=None
    for s in samples:
        if s[0]<=t: v=s[1]
        else: break
    return v
