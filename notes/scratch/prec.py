import re, rtamt, logging, itertools
logging.disable(logging.CRITICAL)
# read alternative order from StlParser.g4
g=open('/repo/rtamt/antlr/grammar/tl/StlParser.g4').read()
body=g[g.index('expression\n'):]
alts=re.findall(r'#(\w+)', body)
print(alts)
LEVEL={a:i for i,a in enumerate(alts)}  # smaller = binds tighter
# formula tuples -> (label, text builder)
LAB={'neg':'ExprNegate','*':'ExprMultDiv','/':'ExprMultDiv','+':'ExprAddSub','-':'ExprAddSub','pred':'ExprPredicate','not':'ExprNot',
 'always':'ExprAlways','eventually':'ExprEv','historically':'ExprHist','once':'ExpreOnce','prev':'ExprPrevious','next':'ExprNext','s_prev':'ExprStrongPrevious','s_next':'ExprStrongNext',
 'until':'ExprUntil','unless':'ExprUnless','since':'ExprSince','and':'ExprAnd','or':'ExprOr','implies':'ExprImplies','iff':'ExprIff','xor':'ExprXor'}
PREFIX={'neg','not','always','eventually','historically','once','prev','next','s_prev','s_next'}
BIN={'*','/','+','-','pred','until','unless','since','and','or','implies','iff','xor'}
def full(f):
    op=f[0]
    if op=='var': return f[1]
    if op=='const': return str(f[1])
    if op=='neg': return '(-(%s))'%full(f[1])
    if op in('not','prev','next','s_prev','s_next'): return '(%s (%s))'%(op,full(f[1]))
    if op in('always','eventually','historically','once'):
        b='' if f[1] is None else '[%d,%d]'%f[1]; return '(%s%s (%s))'%(op,b,full(f[2]))
    if op=='pred': return '((%s) %s (%s))'%(full(f[2]),f[1],full(f[3]))
    if op in('until','since','unless'):
        b='' if f[1] is None else '[%d,%d]'%f[1]; return '((%s) %s%s (%s))'%(full(f[2]),op,b,full(f[3]))
    return '((%s) %s (%s))'%(full(f[1]),op,full(f[2]))
def lvl(f):
    if f[0] in('var','const'): return -1
    return LEVEL[LAB[f[0]]]
def kids(f):
    op=f[0]
    if op in('always','eventually','historically','once'): return [f[2]]
    if op in('until','since','unless','pred'): return [f[2],f[3]]
    if op in('var','const'): return []
    return list(f[1:])
def ends_with_prefix_lower(f, limit):
    """does the rightmost spine of f (printed minimally) end in a prefix operator whose operand would swallow following operators of level < its own? 
    A trailing prefix op of level p absorbs following binary operators with level < p. If we follow f by binary op of level L (in left operand position), trouble iff rightmost open prefix has level > L."""
    return None
def mini(f):
    """minimal parenthesisation under ANTLR4 left-recursion rewriting: alternatives earlier bind tighter; binary left assoc.
    Conservative rule set: 
      - left operand of binary op at level L: needs parens if lvl(child) > L, or if the child's printed form has an 'open right end' prefix operator of level > L ... (handled by rightmost check)
      - right operand of binary op at level L: needs parens if lvl(child) >= L and child is binary; prefix child never needs parens on the right.
      - operand of prefix op at level P: needs parens if child is binary with lvl(child) > P; prefix child never.
    """
    op=f[0]
    if op=='var': return f[1]
    if op=='const': return str(f[1])
    L=lvl(f)
    def right_open_levels(c):
        # levels of prefix operators open at the right end of minimal print of c (not enclosed in parens)
        if c[0] in('var','const'): return []
        if c[0] in PREFIX:
            k=kids(c)[0]
            if k[0] in BIN and lvl(k)>lvl(c): return [lvl(c)]  # operand parenthesised -> closed, but prefix itself still open
            return [lvl(c)]+right_open_levels(k)
        # binary: right operand
        r=kids(c)[1]
        if r[0] in BIN and lvl(r)>=lvl(c): return []  # parenthesised
        return right_open_levels(r)
    if op in PREFIX:
        k=kids(f)[0]; s=mini(k)
        if k[0] in BIN and lvl(k)>L: s='(%s)'%s
        head={'neg':'-','not':'not','prev':'prev','next':'next','s_prev':'s_prev','s_next':'s_next'}.get(op,op)
        if op in('always','eventually','historically','once') and f[1] is not None: head+='[%d,%d]'%f[1]
        return '%s %s'%(head,s)
    a,b=kids(f)
    sa=mini(a); sb=mini(b)
    if (a[0] in BIN and lvl(a)>L) or any(p>L for p in right_open_levels(a)): sa='(%s)'%sa
    if b[0] in BIN and lvl(b)>=L: sb='(%s)'%sb
    o=f[1] if op=='pred' else op
    if op in('until','since','unless') and f[1] is not None: o+='[%d,%d]'%f[1]
    return '%s %s %s'%(sa,o,sb)
from rtamt.antlr.parser.stl.error.parser_error_listener import STLParserErrorListener
STLParserErrorListener.reportAmbiguity = lambda self,*a,**k: None
def name_of(txt):
    s=rtamt.StlDiscreteTimeOfflineSpecification(); s.declare_var('x','float'); s.declare_var('y','float'); s.spec='out = '+txt; s.parse(); return s.spec_print().strip()
X=('var','x');Y=('var','y');C=('const',1)
atoms=[X,Y,C]
def gen(d):
    if d==0: return list(atoms)
    sub=gen(d-1); out=list(sub)
    for c in sub:
        for op in ('neg','not','prev','s_next'): out.append((op,c))
        out.append(('always',None,c)); out.append(('once',(0,1),c))
    small=sub if d==1 else [s for s in sub if s[0] not in('var','const')][:40]+atoms
    for a in small:
        for b in small:
            for op in ('*','+','-','and','or','implies','iff','xor'): out.append((op,a,b))
            out.append(('pred','>=',a,b)); out.append(('until',None,a,b)); out.append(('since',(0,1),a,b)); out.append(('unless',(0,1),a,b))
    return out
forms=gen(2)
print(len(forms))
bad=0; n=0; err=0
seen=set()
for f in forms:
    m=mini(f)
    if m in seen: continue
    seen.add(m)
    try:
        a=name_of(full(f))
    except Exception as e:
        continue   # ill-typed etc
    try:
        b=name_of(m)
    except Exception as e:
        err+=1
        if err<5: print('ERR',m,'|',full(f),e)
        continue
    n+=1
    if a!=b:
        bad+=1
        if bad<15: print('DIFF',m,'|',a,'|',b)
print('compared',n,'bad',bad,'err',err)
