# scratch discrete-time reference semantics (README definition), formulas as tuples
import math
INF=float('inf')
UN_T=('once','historically','eventually','always')
def pr(f):
    op=f[0]
    if op=='var': return f[1]
    if op=='const': return repr(f[1])
    if op=='pred': return '((%s) %s (%s))'%(pr(f[2]),f[1],pr(f[3]))
    if op in('+','-','*','/'): return '((%s) %s (%s))'%(pr(f[1]),op,pr(f[2]))
    if op=='neg': return '(-(%s))'%pr(f[1])
    if op in('abs','sqrt','exp','ln'): return '%s(%s)'%(op,pr(f[1]))
    if op in('pow','log'): return '%s(%s,%s)'%(op,pr(f[1]),pr(f[2]))
    if op in('not','prev','s_prev','next','s_next'): return '(%s (%s))'%(op,pr(f[1]))
    if op in('rise','fall'): return '%s(%s)'%(op,pr(f[1]))
    if op in('and','or','implies','iff','xor'): return '((%s) %s (%s))'%(pr(f[1]),op,pr(f[2]))
    if op in UN_T:
        b='' if f[1] is None else '[%s,%s]'%f[1]
        return '(%s%s(%s))'%(op,b,pr(f[2]))
    if op in('since','until','unless'):
        b='' if f[1] is None else '[%s,%s]'%f[1]
        return '((%s) %s%s (%s))'%(pr(f[2]),op,b,pr(f[3]))
    raise Exception(op)
def ev(f,w,n):
    op=f[0]
    R=range(n)
    if op=='var': return list(w[f[1]])
    if op=='const': return [f[1]]*n
    if op=='pred':
        l=ev(f[2],w,n); r=ev(f[3],w,n); c=f[1]
        if c in('>=','>'): return [a-b for a,b in zip(l,r)]
        if c in('<=','<'): return [b-a for a,b in zip(l,r)]
        if c=='==': return [-abs(a-b) for a,b in zip(l,r)]
        if c=='!==': return [abs(a-b) for a,b in zip(l,r)]
    if op in('+','-','*','/'):
        l=ev(f[1],w,n); r=ev(f[2],w,n)
        return [ {'+':lambda a,b:a+b,'-':lambda a,b:a-b,'*':lambda a,b:a*b,'/':lambda a,b:a/b}[op](a,b) for a,b in zip(l,r)]
    if op=='neg': return [-a for a in ev(f[1],w,n)]
    if op=='abs': return [abs(a) for a in ev(f[1],w,n)]
    if op=='sqrt': return [math.sqrt(a) for a in ev(f[1],w,n)]
    if op=='exp': return [math.exp(a) for a in ev(f[1],w,n)]
    if op=='ln': return [math.log(a) for a in ev(f[1],w,n)]
    if op=='pow': return [math.pow(a,b) for a,b in zip(ev(f[1],w,n),ev(f[2],w,n))]
    if op=='log': return [math.log(a,b) for a,b in zip(ev(f[1],w,n),ev(f[2],w,n))]
    if op=='not': return [-a for a in ev(f[1],w,n)]
    if op=='and': return [min(a,b) for a,b in zip(ev(f[1],w,n),ev(f[2],w,n))]
    if op=='or': return [max(a,b) for a,b in zip(ev(f[1],w,n),ev(f[2],w,n))]
    if op=='implies': return [max(-a,b) for a,b in zip(ev(f[1],w,n),ev(f[2],w,n))]
    if op=='iff': return [-abs(a-b) for a,b in zip(ev(f[1],w,n),ev(f[2],w,n))]
    if op=='xor': return [abs(a-b) for a,b in zip(ev(f[1],w,n),ev(f[2],w,n))]
    if op=='rise':
        c=ev(f[1],w,n); return [c[t] if t==0 else min(-c[t-1],c[t]) for t in R]
    if op=='fall':
        c=ev(f[1],w,n); return [-c[t] if t==0 else min(c[t-1],-c[t]) for t in R]
    if op=='prev': c=ev(f[1],w,n); return [INF if t==0 else c[t-1] for t in R]
    if op=='s_prev': c=ev(f[1],w,n); return [-INF if t==0 else c[t-1] for t in R]
    if op=='next': c=ev(f[1],w,n); return [INF if t==n-1 else c[t+1] for t in R]
    if op=='s_next': c=ev(f[1],w,n); return [-INF if t==n-1 else c[t+1] for t in R]
    if op in UN_T:
        c=ev(f[2],w,n); past=op in('once','historically'); agg=max if op in('once','eventually') else min
        e=-INF if agg is max else INF
        out=[]
        for t in R:
            if f[1] is None: lo,hi=(0,t) if past else (t,n-1)
            else:
                a,b=f[1]
                lo,hi=(max(0,t-b),t-a) if past else (t+a,min(n-1,t+b))
            out.append(agg(c[lo:hi+1]) if lo<=hi and hi>=0 and lo<=n-1 else e)
        return out
    if op=='since':
        p=ev(f[2],w,n); q=ev(f[3],w,n); out=[]
        for t in R:
            lo,hi=(0,t) if f[1] is None else (max(0,t-f[1][1]),t-f[1][0])
            best=-INF
            for j in range(lo,hi+1):
                best=max(best,min([q[j]]+p[j+1:t+1]))
            out.append(best)
        return out
    if op=='until':
        p=ev(f[2],w,n); q=ev(f[3],w,n); out=[]
        for t in R:
            lo,hi=(t,n-1) if f[1] is None else (t+f[1][0],min(n-1,t+f[1][1]))
            best=-INF
            for j in range(lo,hi+1):
                best=max(best,min([q[j]]+p[t:j]))
            out.append(best)
        return out
    if op=='unless':
        a,b=f[1]
        return ev(('or',('always',(0,b),f[2]),('until',(a,b),f[2],f[3])),w,n)
    raise Exception(op)
def horizon(f):
    op=f[0]
    if op in('var','const'): return 0
    if op in('next','s_next'): return 1+horizon(f[1])
    if op in('eventually','always'):
        if f[1] is None: return INF
        return f[1][1]+horizon(f[2])
    if op in('until','unless'):
        if f[1] is None: return INF
        return f[1][1]+max(horizon(f[2]),horizon(f[3]))
    if op in('once','historically'): return horizon(f[2])
    if op=='since': return max(horizon(f[2]),horizon(f[3]))
    if op=='pred': return max(horizon(f[2]),horizon(f[3]))
    return max(horizon(c) for c in f[1:] if isinstance(c,tuple))
def same(a,b):
    if a==b: return True
    if isinstance(a,float) and isinstance(b,float) and math.isnan(a) and math.isnan(b): return True
    try: return math.isclose(a,b,rel_tol=1e-9,abs_tol=1e-12)
    except Exception: return False
