import rtamt, logging, itertools, collections, time, copy, math
import dref
logging.disable(logging.CRITICAL)
def fv(f,acc=None):
    acc=set() if acc is None else acc
    if f[0]=='var': acc.add(f[1])
    for c in f[1:]:
        if isinstance(c,tuple) and c and isinstance(c[0],str): fv(c,acc)
    return acc
def mk(f):
    s=rtamt.StlDenseTimeSpecification()
    for v in sorted(fv(f)): s.declare_var(v,'float')
    s.spec='out = '+dref.pr(f); s.parse(); return s
def cv(v):
    if isinstance(v,(list,tuple,collections.deque)): return tuple(cv(x) for x in v)
    if isinstance(v,dict): return tuple(sorted((k,cv(x)) for k,x in v.items()))
    if isinstance(v,float) and math.isnan(v): return 'nan'
    if isinstance(v,(int,float,str,bool)) or v is None: return v
    if hasattr(v,'__dict__'): return (type(v).__name__, cv({a:b for a,b in v.__dict__.items()}))
    return repr(v)
def canon(s):
    oi=s.online_interpreter
    return tuple(sorted((k,cv(o)) for k,o in oi.online_operator_dict.items()))
def explore(f,sigs):
    vs=sorted(sigs); n={v:len(sigs[v]) for v in vs}
    start=tuple(0 for v in vs)
    seen={}; fr=collections.deque([()]); trans=0; paths_end=0
    # state: history = tuple of steps; step = tuple of counts per var
    while fr:
        h=fr.popleft()
        pos=[sum(st[i] for st in h) for i in range(len(vs))]
        if all(pos[i]==n[v] for i,v in enumerate(vs)): paths_end+=1; continue
        for step in itertools.product(*[range(0,n[v]-pos[i]+1) for i,v in enumerate(vs)]):
            if not any(step): continue
            s=mk(f); p=[0]*len(vs); outs=[]
            for st in h+(step,):
                args=[[v,[list(x) for x in sigs[v][p[i]:p[i]+st[i]]]] for i,v in enumerate(vs)]
                try:
                    outs.append(copy.deepcopy(s.update(*args)))
                except Exception as e:
                    outs.append('EXC'); break
                p=[p[i]+st[i] for i in range(len(vs))]
            trans+=1
            k=(tuple(p),canon(s),cv(outs) if False else None)
            if k not in seen:
                seen[k]=1; fr.append(h+(step,))
    return len(seen),trans,paths_end
X=('var','x');Y=('var','y')
sig={'x':[(0,1.0),(1,-1.0),(2,2.0),(4,0.0)],'y':[(0,0.0),(1.5,2.0),(3,-1.0),(4,1.0)]}
for f in [('once',(0,1),X),('and',X,Y),('since',(0,1),X,Y),('and',('once',(1,2),X),('historically',None,Y))]:
    sg={v:sig[v] for v in fv(f)}
    t=time.time(); r=explore(f,sg); print(dref.pr(f),r,'%.1fs'%(time.time()-t))
