import rtamt, logging, itertools
from ref import *
from e10 import fvars
logging.disable(logging.CRITICAL)
def explain(f, w, n):
    s=rtamt.StlDiscreteTimeOfflineSpecification()
    vs=sorted(fvars(f))
    for v in vs: s.declare_var(v,'float')
    s.spec='out = '+pr(f); s.parse()
    out=s.evaluate(dict({'time':list(range(n))},**{v:list(w[v]) for v in vs}))
    s.explain()
    ex=s.explainer.explanations
    return out[0][1], {v: ex.get(v) for v in vs}
def check(f, n, V=(-1.0,1.0)):
    vs=sorted(fvars(f)); bad=[]; nviol=0
    for vals in itertools.product(V, repeat=n*len(vs)):
        w={v:list(vals[i*n:(i+1)*n]) for i,v in enumerate(vs)}
        try:
            r0, ex = explain(f,w,n)
        except Exception as e:
            return 'EXC %s %s'%(type(e).__name__,e)
        if r0>=0:
            if any(ex[v] for v in vs): bad.append(('REPORTED-ON-SAT',w,ex))
            continue
        nviol+=1
        fixed={(v,i) for v in vs for (a,b) in (ex[v] or []) for i in range(a,b+1)}
        free=[(v,i) for v in vs for i in range(n) if (v,i) not in fixed]
        for alt in itertools.product(V, repeat=len(free)):
            w2={v:list(w[v]) for v in vs}
            for (v,i),val in zip(free,alt): w2[v][i]=val
            if ev(f,w2,n)[0]>=0:
                bad.append(('NOT-SUFFICIENT',w,ex,w2)); break
    return nviol,len(bad),bad[:1]
X=('var','x');Y=('var','y')
forms=[('eventually',(0,1),X),('always',(0,2),X),('implies',('always',(0,1),X),Y),('or',('always',(0,1),X),('always',(1,2),X)),('and',X,('eventually',(1,2),Y)),
       ('implies',X,('eventually',(0,2),Y)),('always',None,('implies',X,('eventually',(0,1),Y))),('not',('eventually',(0,1),X)),('once',(0,1),('prev',X)),('historically',None,('or',X,Y)),
       ('next',('always',(0,1),X)),('eventually',None,('and',X,('next',Y))), ('always',(0,1),('eventually',(0,1),X)), ('pred','>=',X,Y), ('or',('pred','>=',X,('const',0.0)),('not',Y))]
for f in forms: print(pr(f), check(f,4))
