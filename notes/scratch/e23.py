import rtamt, logging, collections
from ref import pr
logging.disable(logging.CRITICAL)
X=('var','x');Y=('var','y');C0=('const',0.0)
px=('pred','>=',X,C0); py=('pred','<=',Y,('const',1.0))
U=[('not',),('prev',),('s_prev',),('next',),('s_next',),('rise',),('fall',),('once',None),('historically',None),('eventually',None),('always',None),('once',(1,2)),('historically',(1,2)),('eventually',(1,2)),('always',(1,2))]
B=[('and',),('or',),('implies',),('iff',),('xor',),('since',None),('until',None),('since',(1,2)),('until',(1,2)),('unless',(1,2))]
AR=[('abs',X),('sqrt',('abs',X)),('exp',X),('pow',X,('const',2.0)),('ln',('+',('abs',X),('const',1.0))),('log',('+',('abs',X),('const',1.0)),('const',2.0)),('neg',X),('+',X,Y),('-',X,Y),('*',X,Y),('/',X,('const',2.0))]
forms=[u+(px,) for u in U]+[b+(px,py) for b in B]+[('pred','>=',a,C0) for a in AR]+[u+(v+(px,),) for u in U for v in U[:3]+U[7:8]+U[11:13]]
def fv(f,acc=None):
    acc=set() if acc is None else acc
    if f[0]=='var': acc.add(f[1])
    for c in f[1:]:
        if isinstance(c,tuple) and c and isinstance(c[0],str): fv(c,acc)
    return acc
def run(f,kind,n=3,pastify=False):
    vs=sorted(fv(f))
    try:
        s=rtamt.StlDiscreteTimeSpecification() if kind.startswith('disc') else rtamt.StlDenseTimeSpecification()
        for v in vs: s.declare_var(v,'float')
        s.spec='out = '+pr(f); s.parse()
        if pastify: s.pastify()
        w={'x':[1.0,-1.0,2.0][:n],'y':[0.0,2.0,1.0][:n]}
        if kind=='disc-off': s.evaluate(dict({'time':list(range(n))},**{v:list(w[v]) for v in vs}))
        elif kind=='disc-on':
            for i in range(n): s.update(i,[(v,w[v][i]) for v in vs])
        elif kind=='dense-off': s.evaluate(*[[v,[[float(i),w[v][i]] for i in range(n)]] for v in vs])
        else:
            for i in range(n): s.update(*[[v,[[float(i),w[v][i]]]] for v in vs])
        return 'OK'
    except rtamt.RTAMTException as e: return 'RTAMT'
    except Exception as e: return 'OTHER %s %s'%(type(e).__name__,str(e)[:50])
tab=collections.defaultdict(list)
for f in forms:
    for kind in ('disc-off','disc-on','dense-off','dense-on'):
        for n in (1,3):
            for pst in ((False,True) if kind.endswith('on') else (False,)):
                r=run(f,kind,n,pst)
                if r.startswith('OTHER'): tab[(kind,pst,r)].append((pr(f),n))
for k,v in sorted(tab.items()): print(k,len(v),v[:3])
print('forms',len(forms))
