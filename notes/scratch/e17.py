import rtamt, logging, copy, itertools, random, inspect, textwrap
logging.disable(logging.CRITICAL)
import rtamt.semantics.stl.dense_time.online.once_timed_operation as m1
import rtamt.semantics.stl.dense_time.online.historically_timed_operation as m2
import sys
if len(sys.argv)>1 and sys.argv[1]=='patch':
    for m,cls in ((m1,'OnceTimedOperation'),(m2,'HistoricallyTimedOperation')):
        src=inspect.getsource(m)
        assert 'if self.residual_start > b[0]:' in src
        src=src.replace('if self.residual_start > b[0]:','if self.residual_start >= b[0]:')
        exec(compile(src,m.__file__,'exec'),m.__dict__)
    import rtamt.semantics.stl.dense_time.online.ast_visitor as av
    av.OnceTimedOperation=m1.OnceTimedOperation; av.HistoricallyTimedOperation=m2.HistoricallyTimedOperation
    import rtamt.semantics.stl.dense_time.online.since_timed_operation as st
    st.OnceTimedOperation=m1.OnceTimedOperation; st.HistoricallyTimedOperation=m2.HistoricallyTimedOperation
import dref
from e5 import chunkings, stepval
def run(spec, sig, ch):
    s=rtamt.StlDenseTimeSpecification(); s.declare_var('x','float'); s.spec=spec; s.parse()
    outs=[]
    for a,b in ch: outs.append(copy.deepcopy(s.update(['x',[list(p) for p in sig[a:b]]])))
    return outs
rnd=random.Random(3)
for spec,f in [('out = once[0,1] x',('once',(0,1),('var','x'))),('out = once[0,2] x',('once',(0,2),('var','x'))),('out = once[1,2] x',('once',(1,2),('var','x'))),('out = historically[0,1] x',('historically',(0,1),('var','x'))),('out = historically[1,3] x',('historically',(1,3),('var','x'))),('out = once[1,1] x',('once',(1,1),('var','x')))]:
    nb=0;n=0;first=None
    for it in range(60):
        k=rnd.randint(2,5); ts=[0]+sorted(rnd.sample(range(1,9),k-1)); sig=[(t,float(rnd.choice([-1,0,2,3]))) for t in ts]
        L=ts[-1]; N=L+20; w={'x':[stepval(sig,i) for i in range(N)]}; ref=dref.ev(f,w,N)
        for ch in chunkings(k):
            n+=1
            try: outs=run(spec,sig,ch)
            except Exception as e: nb+=1; first=first or (sig,ch,'EXC',e); continue
            cat=[p for o in outs for p in o]
            ok=all(cat[i][0]<=cat[i+1][0] for i in range(len(cat)-1))
            x=cat[0][0] if cat else 0
            while cat and x<=cat[-1][0]:
                if stepval(cat,x)!=ref[int(x)]: ok=False; break
                x+=0.5
            if not ok:
                nb+=1; first=first or (sig,ch,outs)
    print(spec,'runs',n,'bad',nb,first)
