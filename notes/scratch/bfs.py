import rtamt, logging, itertools, collections, time, math
from ref import *
from e10 import fvars
logging.disable(logging.CRITICAL)
def mk(f, pastify=False):
    s=rtamt.StlDiscreteTimeSpecification()
    for v in sorted(fvars(f)): s.declare_var(v,'float')
    s.spec='out = '+pr(f); s.parse()
    if pastify: s.pastify()
    return s
def canon_val(v):
    if isinstance(v,collections.deque) or isinstance(v,(list,tuple)): return tuple(canon_val(x) for x in v)
    if isinstance(v,dict): return tuple(sorted((k,canon_val(x)) for k,x in v.items()))
    if isinstance(v,float) and math.isnan(v): return 'nan'
    if isinstance(v,(int,float,str,bool)) or v is None: return v
    return repr(type(v))+':'+str(canon_val(getattr(v,'__dict__',{})))
def canon(spec):
    oi=spec.online_interpreter
    ops=tuple(sorted((k, type(o).__name__, canon_val({a:b for a,b in o.__dict__.items() if a!='sample'})) for k,o in oi.online_operator_dict.items()))
    return ops
def subforms(f,acc):
    if f[0] in('const',): return
    acc.append(f)
    for c in f[1:]:
        if isinstance(c,tuple) and c and isinstance(c[0],str): subforms(c,acc)
def maxbound(f):
    m=1
    if f[0] in ('once','historically','since') and f[1] is not None: m=max(m,f[1][1]+1)
    for c in f[1:]:
        if isinstance(c,tuple) and c and isinstance(c[0],str): m=max(m,maxbound(c))
    return m
def bfs(f, V, maxdepth=12):
    vs=sorted(fvars(f)); events=list(itertools.product(V,repeat=len(vs)))
    subs=[]; subforms(f,subs); K=maxbound(f)
    def refsum(hist):
        n=len(hist)
        if n==0: return ()
        w={v:[e[i] for e in hist] for i,v in enumerate(vs)}
        return (min(n,K),)+tuple(tuple(ev(g,w,n)[-K:]) for g in subs)
    seen=set(); fr=collections.deque([()]); trans=0; depth=0; t0=time.time()
    s0=mk(f); 
    s0.update(0,[(v,0.0) for v in vs]); # force set_ast
    seen.add(('init',))
    maxd=0
    while fr:
        h=fr.popleft()
        if len(h)>=maxdepth: continue
        for e in events:
            s=mk(f)
            for i,ee in enumerate(h): s.update(i,list(zip(vs,ee)))
            out=s.update(len(h),list(zip(vs,e)))
            trans+=1
            h2=h+(e,)
            w={v:[x[i] for x in h2] for i,v in enumerate(vs)}
            r=ev(f,w,len(h2))[-1]
            assert same(out,r),(pr(f),h2,out,r)
            k=(canon(s),refsum(h2))
            if k not in seen:
                seen.add(k); fr.append(h2); maxd=max(maxd,len(h2))
    return len(seen),trans,maxd,time.time()-t0
X=('var','x');Y=('var','y');C0=('const',0.0);C1=('const',1.0)
px=('pred','>=',X,C0); py=('pred','<=',Y,C1)
for f in [('once',(0,2),px), ('since',(1,2),px,py), ('since',None,('once',(0,1),px),py), ('since',(1,2),('once',(0,2),px),py), ('and',('rise',px),('prev',('historically',None,py)))]:
    print(pr(f), bfs(f,[-1.0,0.0,2.0]))
