#!/usr/bin/env python3
"""Seeded property-breaking changes (from independent sub-agents), kept under seeded/<id>/.
  verify <id>            scratch worktree under /tmp: the pinned suite still passes with the patch; demo.py fails with it and passes without
  detect <id> <checks>   apply the patch to /repo, run the checks (quick tier), restore /repo; results are merged into seeded/<id>/meta.json
  scratch <id> <checks>  the same against a scratch worktree of /repo (VERIF_REPO / VERIF_OUT): /repo and /verif/evidence are not touched,
                         so several of these can run side by side (VERIF_NPROC limits the workers of each)
"""
import json, os, re, subprocess, sys
ROOT = os.path.dirname(os.path.abspath(__file__))


def sh(cmd):
    return subprocess.run(cmd, shell=True, capture_output=True, text=True)


def meta_path(i):
    return os.path.join(ROOT, 'seeded', i, 'meta.json')


def load(i):
    p = meta_path(i)
    return json.load(open(p)) if os.path.exists(p) else {}


def save(i, m):
    json.dump(m, open(meta_path(i), 'w'), indent=1, sort_keys=True)


def verify(i):
    d = os.path.join(ROOT, 'seeded', i)
    wt = '/tmp/wt_verify_%s' % i
    sh('git -C /repo worktree remove --force %s' % wt)
    assert sh('git -C /repo worktree add -q %s HEAD' % wt).returncode == 0
    try:
        run = 'cd %s && PYTHONPATH=%s PYTHONDONTWRITEBYTECODE=1 /venv/bin/python ' % (wt, wt)
        r0 = sh(run + os.path.join(d, 'demo.py'))
        a = sh('git -C %s apply %s' % (wt, os.path.join(d, 'patch.diff')))
        assert a.returncode == 0, a.stderr
        r1 = sh(run + os.path.join(d, 'demo.py'))
        t = sh(run + '-m pytest -q -p no:cacheprovider --timeout=900 --continue-on-collection-errors tests 2>&1 | tail -1')
        m = load(i)
        m['verified'] = {'demo_exit_without_change': r0.returncode, 'demo_exit_with_change': r1.returncode,
                         'demo_output_with_change': (r1.stdout + r1.stderr)[-600:], 'suite_with_change': t.stdout.strip()}
        save(i, m)
        print(i, 'demo without: %d, with: %d; suite: %s' % (r0.returncode, r1.returncode, t.stdout.strip()))
    finally:
        sh('git -C /repo worktree remove --force %s' % wt)


def detect(i, checks):
    assert sh('git -C /repo status --porcelain').stdout.strip() == '', '/repo is not clean'
    d = os.path.join(ROOT, 'seeded', i)
    a = sh('git -C /repo apply %s' % os.path.join(d, 'patch.diff'))
    assert a.returncode == 0, a.stderr
    m = load(i)
    det = m.setdefault('detection', {})
    import shutil, tempfile
    keep = tempfile.mkdtemp(prefix='evidence_keep_')
    for c in checks:      # the evidence of a run against a seeded change must not replace the evidence of the real tree
        if os.path.exists(os.path.join(ROOT, 'evidence', c + '.json')):
            shutil.copy(os.path.join(ROOT, 'evidence', c + '.json'), keep)
    try:
        for c in checks:
            r = sh('cd %s && ./check %s --tier quick' % (ROOT, c))
            n = len(re.findall(r'^VIOLATION', r.stdout, re.M))
            first = re.search(r'^  # (.*)$', r.stdout, re.M)
            det[c] = {'exit': r.returncode, 'violation_lines': n, 'first': first.group(1)[:200] if first else ''}
            print(i, c, det[c])
    finally:
        sh('git -C /repo checkout -- .')
        for c in checks:
            if os.path.exists(os.path.join(keep, c + '.json')):
                shutil.copy(os.path.join(keep, c + '.json'), os.path.join(ROOT, 'evidence', c + '.json'))
        shutil.rmtree(keep, ignore_errors=True)
    save(i, m)


def scratch(i, checks):
    d = os.path.join(ROOT, 'seeded', i)
    wt = '/tmp/scratch/sd_%s' % i
    out = '/tmp/scratch/out_%s' % i
    os.makedirs('/tmp/scratch', exist_ok=True)
    sh('git -C /repo worktree remove --force %s' % wt)
    assert sh('git -C /repo worktree add -q --detach %s HEAD' % wt).returncode == 0
    try:
        a = sh('git -C %s apply %s' % (wt, os.path.join(d, 'patch.diff')))
        assert a.returncode == 0, a.stderr
        m = load(i)
        det = m.setdefault('detection', {})
        for c in checks:
            env = 'VERIF_REPO=%s VERIF_OUT=%s VERIF_STOP_AFTER=3 ' % (wt, out)
            r = sh('cd %s && %s ./check %s --tier quick' % (ROOT, env, c))
            n = len(re.findall(r'^VIOLATION', r.stdout, re.M))
            first = re.search(r'^  # (.*)$', r.stdout, re.M)
            brk = re.search(r'^BROKEN.*$', r.stdout, re.M)
            det[c] = {'exit': r.returncode, 'violation_lines': n, 'first': first.group(1)[:200] if first else (brk.group(0)[:200] if brk else '')}
            print(i, c, det[c], flush=True)
        save(i, m)
    finally:
        sh('git -C /repo worktree remove --force %s' % wt)
        sh('rm -rf %s' % out)


if __name__ == '__main__':
    if sys.argv[1] == 'verify':
        verify(sys.argv[2])
    elif sys.argv[1] == 'scratch':
        scratch(sys.argv[2], sys.argv[3:])
    else:
        detect(sys.argv[2], sys.argv[3:])
