#!/usr/bin/env python3
"""Estimates the cost of a tier without running it: runs every N-th shard (VERIF_SHARD_EVERY) into a scratch output directory and
extrapolates the CPU time.  usage: tools_estimate.py <tier> <N> [ids...]"""
import json, os, subprocess, sys, tempfile, time
ROOT = os.path.dirname(os.path.abspath(__file__))
tier, every = sys.argv[1], int(sys.argv[2])
ids = sys.argv[3:] or ['C%02d' % i for i in range(1, 21)]
out = tempfile.mkdtemp(prefix='verif_estimate_')
for c in ids:
    env = dict(os.environ, VERIF_OUT=out, VERIF_SHARD_EVERY=str(every))
    t = time.time()
    r = subprocess.run(['./check', c, '--tier', tier], cwd=ROOT, env=env, capture_output=True, text=True)
    wall = time.time() - t
    try:
        ev = json.load(open(os.path.join(out, 'evidence', c + '.json')))
        cpu = ev['coverage'].get('shard_cpu_s', 0)
        n, done = ev['coverage']['shards'], ev['coverage']['shards_completed']
        slow = ev['coverage']['slowest_shards'][0]['wall_s'] if ev['coverage']['slowest_shards'] else 0
        print('%s %s: %d shards sampled, cpu %.0f s -> full tier about %.0f cpu-min (%.1f min on 16 cores); slowest sampled shard %.0f s; violations %s; wall %.0f s'
              % (c, tier, done, cpu, cpu * every / 60.0, cpu * every / 60.0 / 16, slow, ev['violations'], wall), flush=True)
    except Exception as e:
        print(c, 'no evidence', e, r.stdout[-300:], flush=True)
