#!/bin/sh
# runs every check of the given tier (default quick) and prints one line per check; logs under /tmp/verif_logs_<tier>/
# usage: run_all.sh [quick|thorough] [ids...]
tier="${1:-quick}"
[ $# -gt 0 ] && shift
ids="${*:-01 02 03 04 05 06 07 08 09 10 11 12 13 14 15 16 17 18 19 20}"
cd "$(dirname "$0")" || exit 2
L=/tmp/verif_logs_$tier; mkdir -p $L
for i in $ids; do
  s=$(date +%s)
  ./check C$i --tier $tier > $L/C$i.log 2>&1
  rc=$?
  e=$(date +%s)
  echo "C$i rc=$rc $((e-s))s $(grep -c '^VIOLATION' $L/C$i.log) violations; $(tail -1 $L/C$i.log | cut -c1-200)"
done
