#!/bin/sh
# runs every check of the given tier (default quick) and prints one line per check
tier="${1:-quick}"
cd /verif
for i in 01 02 03 04 05 06 07 08 09 10 11 12 13 14 15 16 17 18 19 20; do
  s=$(date +%s)
  ./check C$i --tier $tier > /tmp/verif_run_C$i.log 2>&1
  rc=$?
  e=$(date +%s)
  echo "C$i rc=$rc $((e-s))s $(grep -c '^VIOLATION' /tmp/verif_run_C$i.log) violations; $(tail -1 /tmp/verif_run_C$i.log | cut -c1-160)"
done
