#!/usr/bin/env python3
"""Prepare the scratch directory and the prompt of one seeding sub-agent.
  tools_wave.py prep <prop> <suffix> <theme-file>   -> /tmp/agents/<prop>-<suffix>/{repo,PROPERTY.txt,PROMPT.txt}
  tools_wave.py keep <prop>-<suffix>                -> copies patch.diff, demo.py, NOTES.md to seeded/<id>/ and writes a meta.json stub
The scratch copy is an export of /repo's HEAD with a one-commit history (the agents must not see the fix: commits).
Nothing from /verif is given to the agent except the property text and one-line descriptions of the mechanisms already used.
"""
import json, os, subprocess, sys, glob
ROOT = os.path.dirname(os.path.abspath(__file__))


def sh(cmd):
    r = subprocess.run(cmd, shell=True, capture_output=True, text=True)
    assert r.returncode == 0, (cmd, r.stderr)
    return r.stdout


def props():
    return {json.loads(l)['id']: json.loads(l) for l in open(os.path.join(ROOT, 'properties.jsonl'))}


def used(prop):
    out = []
    for m in sorted(glob.glob(os.path.join(ROOT, 'seeded', '*', 'meta.json'))):
        j = json.load(open(m))
        if prop in j.get('breaks_property', ''):
            out.append(j.get('change', ''))
    return out


def prep(prop, suffix, theme_file):
    p = props()[prop]
    i = '%s-%s' % (prop, suffix)
    d = '/tmp/agents/' + i
    sh('rm -rf %s && mkdir -p %s/repo' % (d, d))
    sh('git -C /repo archive HEAD | tar -x -C %s/repo' % d)
    sh('cd %s/repo && git init -q && git add -A && git -c user.name=dev -c user.email=dev@example.org commit -q -m "rtamt"' % d)
    text = '%s - %s\n\nStatement: %s\n\nQuantified over: %s\n' % (p['id'], p['title'], p['statement'], p['quantifier'])
    open(d + '/PROPERTY.txt', 'w').write(text)
    theme = open(theme_file).read()
    mech = '\n'.join(' - ' + u for u in used(prop)) or ' (none)'
    prompt = TEMPLATE.replace('@ID@', i).replace('@PROP@', text.strip()).replace('@THEME@', theme.strip()).replace('@USED@', mech)
    open(d + '/PROMPT.txt', 'w').write(prompt)
    print(d + '/PROMPT.txt')


def keep(i):
    d = '/tmp/agents/' + i
    t = os.path.join(ROOT, 'seeded', i)
    os.makedirs(t, exist_ok=True)
    for f in ('patch.diff', 'demo.py', 'NOTES.md'):
        sh('cp %s/%s %s/' % (d, f, t))
    mp = os.path.join(t, 'meta.json')
    if not os.path.exists(mp):
        json.dump({'breaks_property': i.split('-')[0], 'change': '', 'needs_to_manifest': '',
                   'origin': 'independent sub-agent given only the property text and a scratch copy of the repository',
                   'ran': 'tools_seeded.py verify (scratch worktree: pinned suite with the patch, demo.py with and without) and tools_seeded.py detect/scratch (quick tier of the listed checks against the patched tree)'},
                  open(mp, 'w'), indent=1, sort_keys=True)


TEMPLATE = '''You are helping to evaluate a verification harness for the Python library rtamt (runtime monitoring of STL / IA-STL / LTL specifications). Your job is to play the role of a developer who introduces a REALISTIC, SUBTLE BUG.

Your scratch copy of the library is the git repository /tmp/agents/@ID@/repo (one commit). Work ONLY inside /tmp/agents/@ID@. Do not read or touch /repo, /verif or any other directory under /tmp/agents. To run Python against your copy use:
    cd /tmp/agents/@ID@/repo && PYTHONPATH=/tmp/agents/@ID@/repo PYTHONDONTWRITEBYTECODE=1 /venv/bin/python <script>
(without PYTHONPATH the interpreter would import another installation of rtamt - always check `rtamt.__file__` starts with /tmp/agents/@ID@/repo).
The library's own test suite is run with:
    cd /tmp/agents/@ID@/repo && PYTHONPATH=/tmp/agents/@ID@/repo PYTHONDONTWRITEBYTECODE=1 /venv/bin/python -m pytest -q -p no:cacheprovider --timeout=900 --continue-on-collection-errors tests 2>&1 | tail -3
On the unmodified copy it prints "75 failed, 509 passed ... 1 error" (the 75 failures and the error are C++ back-end tests that cannot run here; ignore them). Run it first to see this.

THE PROPERTY the library is supposed to satisfy (file /tmp/agents/@ID@/PROPERTY.txt):
---
@PROP@
---

TASK: make a change to the library source under /tmp/agents/@ID@/repo/rtamt that BREAKS this property while
 (1) the library still imports and the test suite still gives exactly "75 failed, 509 passed" (same 509 tests pass);
 (2) the change looks like something a maintainer could plausibly commit (a refactoring, an optimisation, a clean-up, a generalisation, support for a new input type, a "fix" of something else) - not sabotage, no special-casing of magic values, no dead giveaway comments;
 (3) it needs SOMETHING SPECIFIC to manifest.
@THEME@
 (4) the change is small (ideally < 40 changed lines, one to three files), and is NOT in the C++ back end, the ROS code, tests, or generated ANTLR parser tables.

Mechanisms ALREADY USED by earlier participants for this property - do something with a different mechanism:
@USED@

DELIVERABLES, all written into /tmp/agents/@ID@/ (not inside repo/):
 * patch.diff   - `git -C /tmp/agents/@ID@/repo diff` of your change (must apply with `git apply` to the unmodified copy);
 * demo.py      - a self-contained script using only the public rtamt API that exits with status 1 and prints what went wrong when run against the changed library, and exits 0 against the unmodified library. It must demonstrate a violation of the PROPERTY as stated (compute the expected value independently inside the script - by hand-written reference semantics or a fresh object - do not just compare with hard-coded numbers you cannot justify);
 * NOTES.md     - what you changed (file/lines), why it breaks the property, exactly which usage is needed for it to manifest, and why ordinary use and the test suite do not see it.
Before you finish: (a) `git stash`/`git checkout` to verify demo.py exits 0 on the unmodified copy and 1 with the patch; (b) re-run the suite with the patch and confirm 509 passed; (c) leave the repo/ directory WITH your change applied. If you happen to notice that the UNMODIFIED library already violates the property in some way, add a section "Side findings" to NOTES.md with a minimal reproduction, but still deliver a change of your own.
Your final answer should be a 5-10 line summary: the mechanism, what is needed to manifest, suite result with the patch, demo exit codes.'''

if __name__ == '__main__':
    if sys.argv[1] == 'prep':
        prep(sys.argv[2], sys.argv[3], sys.argv[4])
    else:
        keep(sys.argv[2])
